package fsnotify

// H_decode: differential decode harness (DESIGN.md section 5, "H_decode").
// An arbitrary well-formed kernel buffer is decoded by the real readEvents /
// handleEvent / newEvent / sendEvent and by the reference decoder below
// (written from inotify(7)); the delivered *sequences* must be equal.

import (
	"errors"
	"path/filepath"

	"golang.org/x/sys/unix"
)

const verifMaxRecs = 4

type verifRec struct {
	off    int
	wd     int32
	mask   uint32
	cookie uint32
	ln     uint32
	nl     int // name length up to the first NUL (witness)
}

type verifEnt struct {
	wd   uint32
	path string
	live bool
}

type verifExp struct {
	name string
	op   Op
}

var (
	verifMoved  [verifMaxRecs]uint32
	verifNMoved int
	verifRecs   [verifMaxRecs]verifRec
	verifBuf    []byte
	verifTable  [4]verifEnt
	verifNTable int
)

var verifTablePaths = [...]string{"/t", "/t/a", "/u/b", "rel/d"}

// alternative population: paths whose filepath.Dir is themselves ("." and "/"),
// and a relative path whose parent is the watched "."
var verifTablePathsB = [...]string{".", "sub", "/", "sub/x"}

func verifLE32(b []byte, o int) uint32 { return verifLoad32(b, o) }

const verifHousekeeping = unix.IN_IGNORED | unix.IN_UNMOUNT | unix.IN_Q_OVERFLOW | unix.IN_DELETE_SELF | unix.IN_MOVE_SELF

func verifOneOrNone(m uint32) bool {
	// at most one of the table-affecting / housekeeping bits
	h := m & verifHousekeeping
	return h&(h-1) == 0
}

// verifSetupTable fills the real tables and the kernel model with W entries
// with symbolic, pairwise distinct wds (invariant J of DESIGN.md 3.4).
func verifSetupTable(w *inotify, W int) {
	verifNTable = W
	for i := 0; i < W; i++ {
		wd := verifU32("wd")
		verifAssume(wd >= 1 && wd < 1<<30) // headroom: wd wrap-around after 2^31 allocations is outside the claim
		for j := 0; j < i; j++ {
			verifAssume(wd != verifTable[j].wd)
		}
		flags := verifU32("flags")
		p := verifTablePaths[i]
		if verifParam("TABLEB") != 0 {
			p = verifTablePathsB[i]
		}
		verifTable[i] = verifEnt{wd: wd, path: p, live: true}
		w.watches.wd[wd] = &watch{wd: wd, flags: flags, path: p}
		w.watches.path[p] = wd
		st := int(verifU8("markstate"))
		verifAssume(st == kLive || st == kDying)
		verifK.marks[i] = verifMark{state: st, wd: int32(wd), ino: i, mask: flags}
		if int32(wd) > verifK.nextWd {
			verifK.nextWd = int32(wd)
		}
		verifGuardPtr(&w.mu, w.watches.wd[wd])
	}
	// C07 lock discipline: the tables and every watch are only touched with mu held
	verifGuardMap(&w.mu, w.watches.wd)
	verifGuardMap(&w.mu, w.watches.path)
}

// verifLockMon switches the lock-discipline monitor on around real-code calls
// (the harness's own assertions peek at the tables without the lock).
func verifLockMon(on bool) {
	if verifParam("LOCKMON") != 0 {
		verifMonitor("lock-discipline", on)
	}
}

func verifLookup(wd uint32) int {
	for i := 0; i < verifNTable; i++ {
		if verifTable[i].live && verifTable[i].wd == wd {
			return i
		}
	}
	return -1
}

func verifListed(p string) bool {
	for i := 0; i < verifNTable; i++ {
		if verifTable[i].live && verifTable[i].path == p {
			return true
		}
	}
	return false
}

// verifConstrainRecords is the kernel contract for one read: K records, each
// wd:int32 mask:u32 cookie:u32 len:u32 name[len], back to back, ending at n.
func verifConstrainRecords(b []byte, n int, K, L int, spacer bool) {
	verifBuf = b
	off := 0
	for k := 0; k < K; k++ {
		r := &verifRecs[k]
		r.off = off
		verifAssume(off+16 <= n)
		r.wd = int32(verifLE32(b, off))
		r.mask = verifLE32(b, off+4)
		r.cookie = verifLE32(b, off+8)
		r.ln = verifLE32(b, off+12)
		verifAssume(verifOneOrNone(r.mask))
		verifAssume((r.mask&unix.IN_Q_OVERFLOW != 0) == (r.wd == -1))
		if spacer && k == 0 {
			// a record whose watch is gone, of any length: puts the next record at every offset
			for j := 0; j < verifNTable; j++ {
				verifAssume(uint32(r.wd) != verifTable[j].wd)
			}
			verifAssume(r.ln <= 65536)
			verifAssume(off+16+int(r.ln) <= n)
			r.nl = 0
		} else {
			verifAssume(int(r.ln) <= L)
			verifAssume(off+16+int(r.ln) <= n)
			// kernel contract: IN_IGNORED / IN_UNMOUNT / IN_DELETE_SELF are only queued for a
			// mark the kernel has destroyed (state DYING in the model)
			for j := 0; j < verifNTable; j++ {
				ending := r.mask&(unix.IN_IGNORED|unix.IN_UNMOUNT|unix.IN_DELETE_SELF) != 0
				verifAssume(verifImplies(verifAnd(uint32(r.wd) == verifTable[j].wd, ending), verifK.marks[j].state == kDying))
			}
			nl := int(verifU32("nl"))
			r.nl = nl
			ok := verifImplies(r.ln > 0, verifAnd(nl >= 1, nl < int(r.ln)))
			ok = verifAnd(ok, verifImplies(r.ln == 0, nl == 0))
			for i := 0; i < L; i++ {
				c := verifByteAt(b, off+16+i)
				in := i < int(r.ln)
				ok = verifAnd(ok, verifImplies(verifAnd(in, i < nl), verifAnd(c != 0, c != '/')))
				ok = verifAnd(ok, verifImplies(verifAnd(in, i >= nl), c == 0))
			}
			verifAssume(ok)
		}
		off += 16 + int(r.ln)
	}
	verifAssume(off == n)
}

// verifSpecStep is the sequential specification of one notification.
func verifSpecStep(k int, exp []verifExp, errs []error) ([]verifExp, []error) {
	r := &verifRecs[k]
	if r.mask&unix.IN_Q_OVERFLOW != 0 {
		errs = append(errs, ErrEventOverflow)
	}
	i := verifLookup(uint32(r.wd))
	if i < 0 {
		return exp, errs // watch gone (or overflow marker): nothing
	}
	e := &verifTable[i]
	name := e.path
	if r.ln > 0 {
		name += "/" + verifBufString(verifBuf, r.off+16, r.nl)
	}
	if r.mask&(unix.IN_IGNORED|unix.IN_UNMOUNT) != 0 {
		e.live = false
		verifK.marks[i].state = kNone // IN_IGNORED is the last notification of a wd
		return exp, errs
	}
	if r.mask&unix.IN_DELETE_SELF != 0 {
		e.live = false
	}
	if r.mask&unix.IN_MOVE_SELF != 0 {
		e.live = false
		verifMoved[verifNMoved] = e.wd
		verifNMoved++
	}
	if r.mask&unix.IN_DELETE_SELF != 0 && verifListed(filepath.Dir(e.path)) {
		return exp, errs // the parent's watch reports the removal
	}
	op := verifInotifyOps(r.mask)
	if op == 0 {
		return exp, errs
	}
	return append(exp, verifExp{name: name, op: op}), errs
}

func verifCheckTables(w *inotify) {
	live := 0
	for i := 0; i < verifNTable; i++ {
		e := verifTable[i]
		ww := w.watches.wd[e.wd]
		_, inPath := w.watches.path[e.path]
		if e.live {
			live++
			verifAssert(ww != nil && ww.path == e.path && ww.wd == e.wd, "watch of an untouched entry must stay in the wd table")
			verifAssert(inPath && w.watches.path[e.path] == e.wd, "watch of an untouched entry must stay in the path table")
		} else {
			verifAssert(ww == nil, "ended watch must leave the wd table")
			verifAssert(!inPath, "ended watch must leave the path table")
		}
	}
	verifAssert(len(w.watches.wd) == live && len(w.watches.path) == live, "tables hold exactly one entry per live watch")
}

func H_decode() { verifDecodeRun(0) }

// mode 1: the two halves of one rename inside a watched directory, back to back
func H_rename_pair() { verifDecodeRun(1) }

// mode 2: an overflow marker followed by an ordinary record; afterwards the
// watcher still accepts Add/Remove
func H_overflow_survive() { verifDecodeRun(2) }

// mode 3: two event-producing records in one read (the first may be a self
// event, IN_DELETE_SELF / IN_MOVE_SELF): the delivered order is the kernel order
func H_order() { verifDecodeRun(3) }

func verifDecodeRun(mode int) {
	K := verifParam("K")
	L := verifParam("L")
	W := verifParam("W")
	spacer := verifParam("SPACER") != 0
	if mode != 0 {
		K, spacer = 2, false
	}
	verifKReset()
	verifNMoved = 0
	w := verifNewInotify(K)
	verifSetupTable(w, W)
	n := verifInt("n")
	verifAssume(n >= 16 && n <= 65536)
	verifK.script[0] = verifRead{n: n}
	verifK.nScript = 1
	verifFillBuffer = func(i int, b []byte, n int) {
		if i == 0 {
			verifConstrainRecords(b, n, K, L, spacer)
			r0, r1 := &verifRecs[0], &verifRecs[1]
			if mode == 1 {
				isdir := r0.mask & unix.IN_ISDIR
				verifAssume(r0.mask == unix.IN_MOVED_FROM|isdir && r1.mask == unix.IN_MOVED_TO|isdir)
				verifAssume(r0.cookie != 0 && r0.cookie == r1.cookie)
				verifAssume(uint32(r0.wd) == verifTable[0].wd && r1.wd == r0.wd) // the watched directory "/t"
				verifAssume(r0.ln > 0 && r1.ln > 0)
			}
			if mode == 3 {
				verifAssume(r0.mask&(unix.IN_IGNORED|unix.IN_UNMOUNT|unix.IN_Q_OVERFLOW) == 0 && verifInotifyOps(r0.mask) != 0)
				verifAssume(r1.mask&verifHousekeeping == 0 && verifInotifyOps(r1.mask) != 0)
				verifAssume(uint32(r0.wd) == verifTable[0].wd || uint32(r0.wd) == verifTable[1].wd)
				verifAssume(uint32(r1.wd) == verifTable[0].wd || uint32(r1.wd) == verifTable[1].wd)
				verifAssume(r1.cookie == 0 && r1.ln == 0) // names and cookies are covered elsewhere
			}
			if mode == 2 {
				verifAssume(r0.mask == unix.IN_Q_OVERFLOW && r0.ln == 0)
				verifAssume(r1.mask&verifHousekeeping == 0 && verifInotifyOps(r1.mask) != 0)
				verifAssume(uint32(r1.wd) == verifTable[0].wd)
			}
		}
	}

	verifLockMon(true)
	w.readEvents() // real code: decode loop, handleEvent, newEvent, sendEvent; 2nd read: os.ErrClosed

	verifLockMon(false)
	var exp []verifExp
	var errs []error
	for k := 0; k < K; k++ {
		exp, errs = verifSpecStep(k, exp, errs)
		if verifRecs[k].mask&unix.IN_MOVE_SELF != 0 && verifLookup(uint32(verifRecs[k].wd)) < 0 && len(exp) > 0 {
			verifReach("decode-moveself")
		}
	}
	if mode == 1 {
		verifAssert(len(exp) == 2 && exp[0].op == Rename && exp[1].op == Create, "spec: a rename is Rename(old) then Create(new)")
	}
	var got [verifMaxRecs]Event
	for i, e := range exp {
		ev, ok := <-w.Events
		got[i] = ev
		verifAssert(ok, "an event is missing (lost): Events closed before all expected events were delivered")
		verifAssert(ev.Op == e.op, "delivered Op differs from the documented translation of the kernel mask (or events out of order)")
		verifAssert(ev.Op != 0, "event with empty Op delivered")
		verifAssert(ev.Name == e.name, "delivered Name differs from watch path + '/' + entry name up to the first NUL (or events out of order)")
	}
	_, more := <-w.Events
	verifAssert(!more, "phantom event: more events delivered than kernel records warrant")
	if mode == 1 {
		verifAssert(got[1].renamedFrom == got[0].Name, "the Create of a rename identifies the old name of the immediately preceding Rename")
		verifReach("rename-pair")
	}
	for range errs {
		err, ok := <-w.Errors
		verifAssert(ok && errors.Is(err, ErrEventOverflow), "overflow record must yield ErrEventOverflow on Errors")
	}
	_, moreErr := <-w.Errors
	verifAssert(!moreErr, "value on Errors although nothing failed (benign records only)")
	select {
	case <-w.doneResp:
	default:
		verifFail("doneResp not closed when the reader returned")
	}
	for i := 0; i < verifNMoved; i++ {
		verifAssert(verifRmLogged(verifMoved[i]), "IN_MOVE_SELF: the kernel watch of the moved file must be removed (it would keep reporting under the old name)")
	}
	verifCheckTables(w)
	verifJ(w, " after decoding")
	if mode == 3 {
		if len(exp) == 2 {
			verifReach("order-two-events")
		}
		return
	}
	if mode == 2 {
		verifAssert(len(errs) == 1 && len(exp) == 1, "spec: overflow announced, the next record still delivered")
		verifReach("overflow-survive")
		return
	}
	if mode == 0 {
		if len(exp) == K-verifParam("SPACER") {
			verifReach("decode-all-delivered")
		}
		if len(errs) > 0 {
			verifReach("decode-overflow")
		}
		verifReach("decode-end")
	}
}

// After an overflow the watcher keeps accepting Add/Remove (on a fresh watcher
// value in the same table state: the overflow record changes no state).
func H_overflow_then_ops() {
	W := verifParam("W")
	verifKReset()
	w := verifNewInotify(1)
	verifSetupTable(w, W)
	verifK.nIno = W + 1
	ev, ok := verifDeliver(w, 0xffffffff, unix.IN_Q_OVERFLOW, 0)
	verifAssert(ok && ev.Op == 0, "the overflow marker itself is not an event")
	verifCheckTables(w)
	verifK.addResolve = W
	verifAssert(w.Add("/new") == nil, "Add works after an overflow")
	verifCheckList(w, verifLivePaths("", "/new"), " after overflow + Add")
	verifAssert(w.Remove("/new") == nil, "Remove works after an overflow")
	verifCheckList(w, verifLivePaths("", ""), " after overflow + Add + Remove")
	verifJ(w, " after overflow + Add + Remove")
	verifReach("overflow-then-ops")
}

// C10: the genuine failures - read errors, short reads, EOF - are forwarded to
// Errors and the reader carries on; os.ErrClosed ends it silently.
func H_read_errors() {
	verifKReset()
	w := verifNewInotify(1)
	kind := verifChoose("failure", 3)
	switch kind {
	case 0:
		verifK.script[0] = verifRead{err: unix.EIO}
	case 1:
		n := verifInt("short-n")
		verifAssume(n >= 1 && n < 16)
		verifK.script[0] = verifRead{n: n}
	case 2:
		verifK.script[0] = verifRead{n: 0}
	}
	verifK.nScript = 1
	w.readEvents()
	err, ok := <-w.Errors
	verifAssert(ok && err != nil, "a failing read is reported on Errors")
	if kind == 0 {
		verifAssert(errors.Is(err, unix.EIO), "the read error itself is forwarded")
	}
	_, more := <-w.Errors
	verifAssert(!more, "exactly one error per failing read")
	_, ev := <-w.Events
	verifAssert(!ev, "a failing read produces no event")
	verifAssert(verifK.reads == 2, "the reader carries on with the next read after a failing one")
	verifReach("read-errors")
}

// C01, known weak spot (DESIGN.md 6-E): a file watched through a symlink that
// lives in a watched directory. The kernel reports the file's removal only as
// IN_DELETE_SELF on the file's own watch (the watched directory is not the
// file's parent, so it sees nothing); the event must therefore be delivered.
func H_delete_self_via_symlink() {
	verifKReset()
	w := verifNewInotify(1)
	verifSetupTable(w, 2) // "/t" and "/t/a"
	viaLink := verifBool("watched-through-symlink-in-watched-dir")
	verifAssume(verifK.marks[1].state == kDying)
	ev, ok := verifDeliver(w, verifTable[1].wd, unix.IN_DELETE_SELF, 0)
	verifAssert(ok, "reader keeps running")
	if viaLink {
		// "/t/a" is a symlink to a file elsewhere: "/t"'s watch does not report this removal
		verifAssert(ev.Op == Remove && ev.Name == "/t/a", "removal of a watched file is lost: suppressed because the directory of its *name* is watched, although that directory is not the file's parent")
		verifReach("delete-self-via-symlink")
	} else {
		verifAssert(ev.Op == 0, "duplicate Remove suppressed when the watched parent reports it")
		verifReach("delete-self-parent-reports")
	}
}

// C11/C03: the two halves of a move arrive in two separate reads.
func H_rename_two_reads() {
	L := 16
	verifKReset()
	w := verifNewInotify(2)
	verifSetupTable(w, 2)
	n0, n1 := verifInt("n0"), verifInt("n1")
	verifAssume(n0 >= 16 && n0 <= 65536 && n1 >= 16 && n1 <= 65536)
	verifK.script[0], verifK.script[1] = verifRead{n: n0}, verifRead{n: n1}
	verifK.nScript = 2
	var r [2]verifRec
	var names [2]string
	verifFillBuffer = func(i int, b []byte, n int) {
		verifConstrainRecords(b, n, 1, L, false)
		r[i] = verifRecs[0]
		names[i] = verifBufString(b, 16, r[i].nl)
		isdir := r[i].mask & unix.IN_ISDIR
		if i == 0 {
			verifAssume(r[0].mask == unix.IN_MOVED_FROM|isdir && r[0].cookie != 0 && r[0].ln > 0)
			verifAssume(uint32(r[0].wd) == verifTable[0].wd)
		} else {
			verifAssume(r[1].mask == unix.IN_MOVED_TO|isdir && r[1].cookie == r[0].cookie && r[1].ln > 0)
			verifAssume(uint32(r[1].wd) == verifTable[0].wd)
		}
	}
	w.readEvents()
	e1, ok1 := <-w.Events
	e2, ok2 := <-w.Events
	verifAssert(ok1 && ok2, "both halves are delivered")
	verifAssert(e1.Op == Rename && e1.Name == "/t/"+names[0], "Rename of the old name")
	verifAssert(e2.Op == Create && e2.Name == "/t/"+names[1], "Create of the new name")
	verifAssert(e2.renamedFrom == e1.Name, "the Create identifies the old name also when the two halves arrive in separate reads")
	_, more := <-w.Events
	verifAssert(!more, "nothing else")
	verifReach("rename-two-reads")
}

// C03 across reads: everything of one read is delivered before anything of the
// next, whatever the size of the first read (up to a completely full buffer:
// the spacer record stands for any amount of records whose watches are gone).
func H_order_two_reads() {
	verifKReset()
	w := verifNewInotifyN(0, verifChoose("evcap", 2), 8)
	verifSetupTable(w, 2)
	n0, n1 := verifInt("n0"), verifInt("n1")
	verifAssume(n0 >= 32 && n0 <= 65536 && n1 == 16)
	if verifBool("full-buffer") {
		verifAssume(n0 > 65536-(16+256))
		verifReach("order-two-reads-full")
	}
	verifK.script[0], verifK.script[1] = verifRead{n: n0}, verifRead{n: n1}
	verifK.nScript = 2
	verifK.blockAfter = true
	var r [2]verifRec
	verifFillBuffer = func(i int, b []byte, n int) {
		if i == 0 {
			verifConstrainRecords(b, n, 2, 0, true)
			r[0] = verifRecs[1]
		} else {
			verifConstrainRecords(b, n, 1, 0, false)
			r[1] = verifRecs[0]
		}
		verifAssume(r[i].mask&verifHousekeeping == 0 && verifInotifyOps(r[i].mask) != 0 && r[i].ln == 0 && r[i].cookie == 0)
		verifAssume(uint32(r[i].wd) == verifTable[0].wd || uint32(r[i].wd) == verifTable[1].wd)
	}
	go w.readEvents()
	for i := 0; i < 2; i++ {
		ev := <-w.Events
		verifAssert(ev.Op == verifInotifyOps(r[i].mask) && ev.Name == verifTable[verifLookup(uint32(r[i].wd))].path, "everything of one read is delivered before anything of the next read")
	}
	verifAssert(w.Close() == nil, "Close")
	verifReach("order-two-reads")
}
