package fsnotify

import "golang.org/x/sys/unix"

// C05: whatever rename-cookie state earlier history left behind (for example
// ten or more unmatched move-outs), handling a further move half terminates and
// the control calls return.
func H_ctl_ring() {
	verifKReset()
	w := verifNewInotifyN(0, 1, 0)
	for i := range w.cookies {
		w.cookies[i] = koekje{cookie: verifU32("ringcookie"), path: "/old"}
	}
	w.cookieIndex = verifU8("ringindex")
	verifAssume(w.cookieIndex <= 9)
	verifSetupTable(w, 2)
	c := verifU32("cookie")
	verifAssume(c != 0)
	half := [...]uint32{unix.IN_MOVED_FROM, unix.IN_MOVED_TO}[verifChoose("half", 2)]
	done := make(chan bool, 1)
	go func() {
		_, ok := verifDeliver(w, verifTable[0].wd, half, c)
		done <- ok
	}()
	verifAssert(<-done, "the notification is handled")
	_ = w.WatchList()
	verifAssert(w.cookieIndex <= 9, "ring index in range")
	verifReach("ctl-ring")
}
