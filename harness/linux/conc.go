package fsnotify

// Concurrency harnesses (C05, C06, C07, C13, C14): the reader goroutine runs the
// real readEvents; the engine's scheduler runs a goroutine until it blocks,
// finishes or reaches a switch point (seam call, verifYield, go statement).

import (
	"errors"

	"golang.org/x/sys/unix"
)

// verifScriptRead arms one scripted read of K arbitrary records; afterwards
// the read blocks until the file is closed (as the poller does).
func verifScriptRead(K, L int) { verifScriptReadX(K, L, verifParam("SIMPLE") != 0) }

// simple: only ordinary (non-housekeeping) records of listed watches, no cookies
func verifScriptReadX(K, L int, simple bool) {
	n := verifInt("n")
	verifAssume(n >= 16 && n <= 65536)
	verifK.script[0] = verifRead{n: n}
	verifK.nScript = 1
	verifK.blockAfter = true
	maxWd := verifK.nextWd
	verifFillBuffer = func(i int, b []byte, n int) {
		if i == 0 {
			verifConstrainRecords(b, n, K, L, false)
			for k := 0; k < K; k++ {
				// records queued before the harness's own Add calls: they cannot name a wd handed out later
				verifAssume(verifRecs[k].wd <= maxWd)
				if simple {
					r := &verifRecs[k]
					kind := 0
					if k == 0 && verifParam("SILENT0") != 0 {
						kind = verifChoose("rec0-kind", 3)
					}
					switch kind {
					case 0: // an ordinary record of a listed watch
						verifAssume(r.mask&verifHousekeeping == 0 && r.cookie == 0 && verifInotifyOps(r.mask) != 0)
						if verifParam("LEAN") != 0 {
							verifAssume(uint32(r.wd) == verifTable[0].wd && r.ln == 0) // events on the watched path itself
						} else {
							verifAssume(uint32(r.wd) == verifTable[0].wd || uint32(r.wd) == verifTable[1].wd)
						}
					case 1: // housekeeping: must stay silent whatever the buffer size
						verifAssume(r.mask == unix.IN_IGNORED && r.ln == 0 && uint32(r.wd) == verifTable[1].wd)
					case 2: // a record whose watch is gone
						verifAssume(uint32(r.wd) != verifTable[0].wd && uint32(r.wd) != verifTable[1].wd && r.mask&unix.IN_Q_OVERFLOW == 0)
					}
				}
			}
		}
	}
}

var verifCtlPaths = [...]string{"/t", "/t/a", "/new"}

// C05: with nobody receiving from Events or Errors, and the reader parked
// wherever the records put it, every control call still returns.
func H_ctl_vs_reader() {
	K := verifParam("K")
	W := verifParam("W")
	verifKReset()
	w := verifNewInotifyN(0, verifChoose("evcap", 3), 0)
	verifSetupTable(w, W)
	verifK.nIno = W + 1
	verifScriptRead(K, 16)
	go w.readEvents()
	verifQuiesce() // the reader runs until it blocks: in a send, or in the next read
	p := verifCtlPaths[verifChoose("path", len(verifCtlPaths))]
	switch verifChoose("op", 4) {
	case 0:
		_ = w.Add(p)
		verifReach("ctl-add-returned")
	case 1:
		_ = w.Remove(p)
		verifReach("ctl-remove-returned")
	case 2:
		_ = w.WatchList()
		verifReach("ctl-list-returned")
	case 3:
		verifAssert(w.Close() == nil, "Close returns nil")
		verifReach("ctl-close-returned")
	}
	// and Close always returns afterwards, any number of times
	_ = w.Close()
	_ = w.Close()
	verifReach("ctl-closed")
}

// C05/C06: several goroutines call Close, some twice, while the reader is
// parked in a send or idle; every call returns, nothing panics.
func H_close_n() {
	K := verifParam("K")
	W := verifParam("W")
	verifKReset()
	w := verifNewInotifyN(0, verifChoose("evcap", 2), 0)
	verifSetupTable(w, W)
	verifScriptRead(K, 16)
	go w.readEvents()
	if verifBool("quiesce-first") {
		verifQuiesce()
	}
	d1, d2 := make(chan error, 2), make(chan error, 2)
	go func() { d1 <- w.Close(); d1 <- w.Close() }()
	go func() { verifYield(); d2 <- w.Close() }()
	e0 := w.Close()
	verifAssert(e0 == nil && <-d1 == nil && <-d1 == nil && <-d2 == nil, "every Close call returns nil")
	verifCheckClosed(w)
	verifReach("close-n")
}

// verifCheckClosed: the observable post-conditions of C06 / C13.
func verifCheckClosed(w *inotify) {
	for range w.Events { // drains what was buffered; terminates because the channel is closed
	}
	_, ok := <-w.Errors
	for ok {
		_, ok = <-w.Errors
	}
	select {
	case <-w.doneResp:
	default:
		verifFail("reader has not finished although Close returned")
	}
	verifAssert(verifChanStat(w.Events, "closed") == 1 && verifChanStat(w.Errors, "closed") == 1, "Events and Errors are closed after Close")
	verifAssert(verifChanStat(w.Events, "closers") <= 1 && verifChanStat(w.Errors, "closers") <= 1, "channels closed once")
	addsBefore, rmsBefore := verifK.addCalls, verifK.rmCalls
	err := w.Add("/t")
	verifAssert(err != nil && errors.Is(err, ErrClosed), "Add after Close fails with ErrClosed")
	verifAssert(w.Remove("/t") == nil, "Remove after Close returns nil")
	verifAssert(w.Remove("/t/a") == nil, "Remove after Close returns nil")
	verifAssert(w.WatchList() == nil, "WatchList after Close returns nil")
	verifAssert(verifK.addCalls == addsBefore && verifK.rmCalls == rmsBefore, "after Close the API is inert: no system call may be issued on the released descriptor (its number may already belong to another Watcher)")
	verifAssert(verifK.closeCalls == 1, "the inotify descriptor is closed exactly once")
	for i := range verifK.marks {
		verifAssert(verifK.marks[i].state != kLive, "no kernel watch survives Close")
	}
}

// C06: Close at any point of the reader's progress, with a consumer that
// takes j events and then stops.
func H_close_protocol() {
	K := verifParam("K")
	W := verifParam("W")
	verifKReset()
	w := verifNewInotifyN(0, verifChoose("evcap", 3), 0)
	verifSetupTable(w, W)
	verifScriptRead(K, 16)
	go w.readEvents()
	j := verifChoose("consume", K+1)
	got := 0
	for i := 0; i < j; i++ {
		verifQuiesce()
		select {
		case _, ok := <-w.Events:
			verifAssert(ok, "Events must not be closed before Close is called")
			got++
		case err := <-w.Errors:
			verifAssert(errors.Is(err, ErrEventOverflow), "only overflow is reported for benign records")
		default:
		}
	}
	verifQuiesce()
	verifAssert(w.Close() == nil, "Close returns")
	sendsAtClose := verifChanStat(w.Events, "sends")
	// what the Watcher had absorbed before Close is still delivered, intact, after it
	after := 0
	for range w.Events {
		after++
	}
	verifAssert(got+after == sendsAtClose, "events that were sent (buffered) before Close must still be received after it: Close must not discard them")
	verifCheckClosed(w)
	verifAssert(verifChanStat(w.Events, "sends") == sendsAtClose, "nothing is sent on Events after Close has returned")
	verifAssert(verifChanStat(w.Events, "senders") <= 1 && verifChanStat(w.Errors, "senders") <= 1, "only the reader goroutine sends")
	verifReach("close-protocol")
}

// C07: of two concurrent Remove calls for one watched path exactly one succeeds.
func H_two_removes() {
	W := verifParam("W")
	verifKReset()
	w := verifNewInotifyN(0, 0, 0)
	verifSetupTable(w, W)
	i := verifChoose("entry", W)
	verifAssume(verifK.marks[i].state == kLive)
	p := verifTable[i].path
	r := make(chan error, 2)
	go func() { r <- w.Remove(p) }()
	go func() { verifYield(); r <- w.Remove(p) }()
	e1, e2 := <-r, <-r
	ok1, ok2 := e1 == nil, e2 == nil
	verifAssert(ok1 != ok2, "of two concurrent Remove calls for one watched path exactly one succeeds")
	if !ok1 {
		verifAssert(errors.Is(e1, ErrNonExistentWatch), "the other reports ErrNonExistentWatch")
	}
	if !ok2 {
		verifAssert(errors.Is(e2, ErrNonExistentWatch), "the other reports ErrNonExistentWatch")
	}
	verifTable[i].live = false
	verifCheckList(w, verifLivePaths("", ""), " after two concurrent Removes")
	w.mu.Lock()
	verifJ(w, " after two concurrent Removes")
	w.mu.Unlock()
	verifReach("two-removes")
}

// C07: a few goroutines on overlapping paths while the reader handles a
// record; results must be explained by some sequential order.
func H_conc_api() {
	W := verifParam("W")
	verifKReset()
	w := verifNewInotifyN(0, 1, 1)
	verifSetupTable(w, W)
	verifK.nIno = W + 1
	verifK.addResolve = W // "/new" is a file not watched so far
	verifScriptRead(1, 16)
	go w.readEvents()
	ra, rb := make(chan error, 1), make(chan error, 1)
	rl := make(chan []string, 1)
	go func() { ra <- w.Add("/new") }()
	go func() { verifYield(); rb <- w.Remove("/new") }()
	go func() { verifYield(); rl <- w.WatchList() }()
	ea, eb, l := <-ra, <-rb, <-rl
	verifAssert(ea == nil, "Add of a fresh path succeeds")
	verifAssert(eb == nil || errors.Is(eb, ErrNonExistentWatch), "Remove either found the path (after Add) or reports ErrNonExistentWatch (before Add)")
	for i := range l {
		for k := 0; k < i; k++ {
			verifAssert(l[i] != l[k], "WatchList never shows a path twice")
		}
		known := l[i] == "/new"
		for k := 0; k < W; k++ {
			known = known || l[i] == verifTablePaths[k]
		}
		verifAssert(known, "WatchList never shows a path that was never added")
	}
	verifQuiesce()
	snap := w.WatchList()
	listed := verifInList(snap, "/new")
	verifAssert(listed == (eb != nil), "final state agrees with the sequential order the results imply")
	// a returned list is a snapshot: later calls must not rewrite it
	var copyOf [8]string
	copy(copyOf[:], snap)
	_ = w.Add("/t/ab")
	_ = w.WatchList()
	_ = w.Remove("/t/ab")
	_ = w.WatchList()
	for i := range snap {
		verifAssert(snap[i] == copyOf[i], "a list returned by WatchList is rewritten by later calls (it must be a snapshot)")
	}
	verifAssert(w.Close() == nil, "Close returns")
	verifReach("conc-api")
}

// C13: full life cycle through the real NewWatcher/NewBufferedWatcher.
func H_lifecycle() {
	verifKReset()
	var wt *Watcher
	var err error
	unread := 0
	if verifBool("buffered") {
		wt, err = NewBufferedWatcher(2)
		unread = verifChoose("unread", 3)
	} else {
		wt, err = NewWatcher()
	}
	verifAssert(err == nil && wt != nil, "NewWatcher succeeds when inotify_init1 does")
	// earlier events nobody has read yet: with two of them the buffer is full and the
	// record of this history is pending in the reader when Close is called
	for i := 0; i < unread; i++ {
		wt.Events <- Event{Name: "/t/earlier", Op: Write}
	}
	if unread == 2 {
		verifReach("lifecycle-buffer-full")
	}
	w := wt.b.(*inotify)
	verifK.nIno = 3
	nadd := verifChoose("adds", 3)
	if nadd > 0 {
		_ = wt.Add("/t")
	}
	if nadd > 1 {
		_ = wt.Add("/t/a")
	}
	// one record of one of the kinds that matter for the life cycle, possibly naming a watch just added
	n := verifInt("n")
	verifAssume(n == 16)
	verifK.script[0] = verifRead{n: n}
	verifK.nScript = 1
	verifK.blockAfter = true
	kind := verifChoose("record", 7)
	verifFillBuffer = func(i int, b []byte, n int) {
		if i != 0 {
			return
		}
		verifConstrainRecords(b, n, 1, 16, false)
		r := &verifRecs[0]
		verifAssume(r.ln == 0 && r.cookie == 0)
		masks := [...]uint32{unix.IN_MODIFY, unix.IN_IGNORED, unix.IN_UNMOUNT, unix.IN_Q_OVERFLOW, unix.IN_DELETE_SELF, unix.IN_MOVE_SELF, unix.IN_ATTRIB | unix.IN_ISDIR}
		verifAssume(r.mask == masks[kind])
		if kind != 3 {
			verifAssume(r.wd == 1 || r.wd == 2 || r.wd == 77)
		}
	}
	park := verifBool("park")
	if park {
		verifQuiesce() // let the reader decode and park (pending event / pending error)
	}
	// the environment may delete watched files at any time: their marks are destroyed by
	// the kernel while the IN_IGNORED is still unread
	if nadd == 2 && verifBool("deleted-before-close") {
		m := &verifK.marks[0]
		if m.state == kLive {
			m.state = kDying
			verifReach("lifecycle-deleted-before-close")
		}
	}
	two := !park && verifBool("two-closers")
	d := make(chan error, 1)
	if two {
		go func() { d <- wt.Close() }()
	}
	verifAssert(wt.Close() == nil, "Close returns nil")
	if two {
		verifAssert(<-d == nil, "concurrent Close returns nil")
	}
	verifQuiesce()
	verifAssert(verifGoroutines() == 0, "the background goroutine is gone after Close")
	verifAssert(verifK.initCalls == 1 && verifK.newFiles == 1, "one descriptor acquired")
	verifAssert(verifK.sysOpens == verifK.sysCloses, "no other descriptor left open")
	verifAssert(verifK.initFlags&unix.IN_CLOEXEC != 0, "the notification descriptor is close-on-exec: otherwise child processes inherit it and the kernel instance outlives Close")
	verifAssert(verifK.initFlags&unix.IN_NONBLOCK != 0, "the notification descriptor is non-blocking: otherwise Close cannot interrupt the reader's pending read")
	verifCheckClosed(w)
	for _, p := range [...]string{"", "/t", "rel", "/t/..."} {
		e := wt.Add(p)
		verifAssert(e != nil && errors.Is(e, ErrClosed), "Add on a closed Watcher fails with ErrClosed, whatever the path")
		verifAssert(wt.Remove(p) == nil, "Remove on a closed Watcher returns nil, whatever the path")
	}
	verifAssert(wt.WatchList() == nil, "WatchList on a closed Watcher returns nil")
	verifReach("lifecycle")
}

func H_init_fail() {
	verifKReset()
	verifK.initFail = true
	var wt *Watcher
	var err error
	if verifBool("buffered") {
		wt, err = NewBufferedWatcher(uint(verifU8("sz")))
	} else {
		wt, err = NewWatcher()
	}
	verifAssert(wt == nil && err != nil && errors.Is(err, unix.EMFILE), "a failing inotify_init1 is reported")
	verifAssert(verifGoroutines() == 0, "failed NewWatcher starts no goroutine")
	verifAssert(verifK.newFiles == 0 && verifK.closeCalls == 0, "failed NewWatcher acquires nothing else")
	verifAssert(verifK.sysOpens == verifK.sysCloses, "failed NewWatcher leaves no other descriptor open")
	verifReach("init-fail")
}

// C14: channel capacities.
func H_cap() {
	verifKReset()
	sz := verifU32("sz")
	verifAssume(sz <= 65536)
	wt, err := NewBufferedWatcher(uint(sz))
	verifAssert(err == nil, "NewBufferedWatcher succeeds")
	verifAssert(cap(wt.Events) == int(sz), "buffered Watcher's Events capacity is exactly the size requested")
	verifAssert(cap(wt.Errors) == 0, "Errors is unbuffered")
	w2, err2 := NewWatcher()
	verifAssert(err2 == nil && cap(w2.Events) == defaultBufferSize && defaultBufferSize == 0, "NewWatcher uses the platform default (0 on inotify)")
	verifAssert(wt.b.(*inotify).Events == wt.Events && wt.b.(*inotify).Errors == wt.Errors, "the backend sends on the Watcher's own channels")
	verifReach("cap")
}

// C14: the delivered sequence does not depend on capacity or consumer pace.
func H_deliver() {
	K := verifParam("K")
	W := verifParam("W")
	verifKReset()
	verifNMoved = 0
	caps := [...]int{0, 1, K, K + 1}
	w := verifNewInotifyN(0, caps[verifChoose("evcap", len(caps))], 8)
	verifSetupTable(w, W)
	verifScriptReadX(K, 16, true)
	go w.readEvents()
	// consumer pace: before each receive either let the reader run until it blocks, or not
	var got [verifMaxRecs]Event
	ngot := 0
	var exp []verifExp
	var errs []error
	pace := verifChoose("pace", 3)
	if pace == 1 {
		verifQuiesce()
	}
	// expected sequence from the reference decoder (records are fixed once the read happened)
	verifQuiesce()
	for k := 0; k < K; k++ {
		exp, errs = verifSpecStep(k, exp, errs)
	}
	for range exp {
		if pace == 2 {
			verifQuiesce()
		}
		ev, ok := <-w.Events
		verifAssert(ok, "event lost")
		got[ngot] = ev
		ngot++
	}
	for i, e := range exp {
		verifAssert(got[i].Op == e.op && got[i].Name == e.name, "delivered sequence differs from the kernel sequence for this buffer size / consumer pace")
	}
	verifQuiesce()
	select {
	case <-w.Events:
		verifFail("more events than records")
	default:
	}
	verifAssert(w.Close() == nil, "Close returns")
	verifReach("deliver")
}

// C14: two watchers share nothing.
func H_two_watchers() {
	W := verifParam("W")
	verifKReset()
	verifSetOwner(1)
	w1 := verifNewInotifyN(0, 1, 1)
	verifSetupTable(w1, W)
	verifSetOwner(2)
	w2 := verifNewInotifyN(1, 1, 1)
	w2.watches.wd[5] = &watch{wd: 5, path: "/t"}
	w2.watches.path["/t"] = 5
	verifKs[1].marks[0] = verifMark{state: kLive, wd: 5, ino: 0}
	verifKs[1].nextWd = 5
	verifSetOwner(0)
	snap2 := verifKs[1]
	// arbitrary activity on watcher 1 must not touch watcher 2
	verifForbidOwner(2, true)
	verifMonitor("no-global-writes", true)
	verifKs[0].nIno = W + 1
	p := verifCtlPaths[verifChoose("path", len(verifCtlPaths))]
	switch verifChoose("op", 6) {
	case 5:
		// a closed Watcher is inert: its descriptor number may already belong to another Watcher
		go w1.readEvents()
		_ = w1.Close()
		a0, r0 := verifKs[0].addCalls, verifKs[0].rmCalls
		_ = w1.Remove(verifTable[0].path)
		_ = w1.Remove(p)
		_ = w1.Add(p)
		verifAssert(verifKs[0].addCalls == a0 && verifKs[0].rmCalls == r0, "a closed Watcher issues no system calls: its descriptor number may have been re-used by another Watcher, whose watches it would remove")
	case 0:
		_ = w1.Add(p)
	case 1:
		_ = w1.Remove(p)
	case 2:
		_ = w1.WatchList()
	case 3:
		_, _ = verifDeliver(w1, verifTable[0].wd, verifU32("mask")&^uint32(unix.IN_Q_OVERFLOW), verifU32("cookie"))
	case 4:
		go w1.readEvents()
		_ = w1.Close()
	}
	verifMonitor("no-global-writes", false)
	verifForbidOwner(2, false)
	k2 := &verifKs[1]
	verifAssert(k2.addCalls == snap2.addCalls && k2.rmCalls == snap2.rmCalls && k2.closeCalls == snap2.closeCalls && k2.reads == snap2.reads && k2.marks == snap2.marks, "every system call of a Watcher addresses its own descriptor")
	verifAssert(verifKs[0].lastAddFd != verifFd+1 && verifKs[0].lastRmFd != verifFd+1, "no call on the other instance's descriptor")
	// watcher 2 behaves as if alone
	ev, ok := verifDeliver(w2, 5, unix.IN_MODIFY, 0)
	verifAssert(ok && ev.Op == Write && ev.Name == "/t", "the other Watcher keeps working unaffected")
	l := w2.WatchList()
	verifAssert(len(l) == 1 && l[0] == "/t", "the other Watcher's watch list is untouched")
	verifReach("two-watchers")
}

// Close racing one control call, with one pre-emption allowed at any lock
// acquisition, seam or yield: both return, and the Watcher is left usable for
// further Close/Remove calls (no lock is left held, nothing blocks).
func H_close_vs_op() {
	W := verifParam("W")
	verifKReset()
	w := verifNewInotifyN(0, 1, 0)
	verifSetupTable(w, W)
	verifK.nIno = W + 1
	if verifBool("record-pending") {
		verifScriptReadX(1, 16, true) // the reader has a record to handle when the calls start
	} else {
		verifK.blockAfter = true
	}
	go w.readEvents()
	p := verifCtlPaths[verifChoose("path", len(verifCtlPaths))]
	op := verifChoose("op", 3)
	call := func() error {
		switch op {
		case 0:
			return w.Add(p)
		case 1:
			return w.Remove(p)
		}
		_ = w.WatchList()
		return nil
	}
	var e error
	if verifBool("close-from-goroutine") {
		// the call is under way when another goroutine closes the Watcher
		c := make(chan error, 1)
		go func() { c <- w.Close() }()
		e = call()
		verifAssert(<-c == nil, "Close returns nil")
	} else {
		r := make(chan error, 1)
		go func() { r <- call() }()
		verifYield()
		verifAssert(w.Close() == nil, "Close returns nil")
		e = <-r
	}
	if op == 0 && e != nil && errors.Is(e, ErrClosed) {
		verifReach("close-vs-op-add-lost-race")
	}
	// the call either took effect before Close or found the Watcher closed; it never
	// works on the descriptor after Close has released it
	verifAssert(e == nil || !errors.Is(e, unix.EBADF), "a call racing Close must not reach the kernel with the released descriptor (EBADF): it is ordered before Close or fails as closed")
	if op == 1 {
		verifAssert(e == nil || !errors.Is(e, ErrClosed), "Remove on a closed Watcher returns nil - also when Close won the race for the lock")
	}
	// everything still returns afterwards
	verifAssert(w.Close() == nil, "a further Close returns")
	verifAssert(w.Remove(p) == nil, "Remove after Close returns nil")
	verifAssert(w.WatchList() == nil, "WatchList after Close returns nil")
	for range w.Events {
	}
	verifQuiesce()
	verifAssert(verifGoroutines() == 0, "no goroutine is left behind (blocked) after Close")
	verifReach("close-vs-op")
}

// C07: callers read the lists they were given while other calls run; a list is
// a snapshot owned by its caller.
func H_conc_lists() {
	W := verifParam("W")
	verifKReset()
	w := verifNewInotifyN(0, 1, 1)
	verifSetupTable(w, W)
	verifK.nIno = W + 1
	verifK.addResolve = W
	ra := make(chan error, 1)
	r1, r2 := make(chan int, 1), make(chan int, 1)
	count := func(l []string) int {
		n := 0
		for _, p := range l { // the caller reads the snapshot it was given
			if p != "" {
				n++
			}
		}
		return n
	}
	go func() { ra <- w.Add("/new") }()
	go func() { r1 <- count(w.WatchList()) }()
	go func() { verifYield(); r2 <- count(w.WatchList()) }()
	ea, n1, n2 := <-ra, <-r1, <-r2
	verifAssert(ea == nil, "Add succeeds")
	verifAssert((n1 == W || n1 == W+1) && (n2 == W || n2 == W+1), "each WatchList shows the state before or after the concurrent Add")
	verifReach("conc-lists")
}

// C13: a failing read (consumed from Errors) must not make a later Close skip
// releasing the descriptor.
func H_lifecycle_readerr() {
	verifKReset()
	wt, err := NewWatcher()
	verifAssert(err == nil, "NewWatcher")
	w := wt.b.(*inotify)
	verifK.script[0] = verifRead{err: unix.EIO}
	verifK.nScript = 1
	verifK.blockAfter = true
	_ = wt.Add("/t")
	e := <-wt.Errors
	verifAssert(e != nil && errors.Is(e, unix.EIO), "the read error is reported")
	verifQuiesce()
	verifAssert(wt.Close() == nil, "Close returns nil")
	verifQuiesce()
	verifAssert(verifGoroutines() == 0, "the reader is gone after Close")
	verifCheckClosed(w)
	verifReach("lifecycle-readerr")
}

// C10: an overflow is announced on Errors; until somebody receives it the
// watcher still accepts Add/Remove, and afterwards it keeps delivering.
func H_overflow_ctl() {
	verifKReset()
	w := verifNewInotifyN(0, 1, 0)
	verifSetupTable(w, 2)
	verifK.nIno = 3
	n := verifInt("n")
	verifAssume(n == 32)
	verifK.script[0] = verifRead{n: n}
	verifK.nScript = 1
	verifK.blockAfter = true
	verifFillBuffer = func(i int, b []byte, n int) {
		if i == 0 {
			verifConstrainRecords(b, n, 2, 16, false)
			verifAssume(verifRecs[0].mask == unix.IN_Q_OVERFLOW)
			verifAssume(verifRecs[1].mask == unix.IN_MODIFY && uint32(verifRecs[1].wd) == verifTable[0].wd && verifRecs[1].cookie == 0)
		}
	}
	go w.readEvents()
	verifQuiesce() // the reader is parked offering ErrEventOverflow; nobody has received it yet
	verifK.addResolve = 2
	verifAssert(w.Add("/new") == nil, "Add is accepted while the overflow error is still waiting to be received")
	verifAssert(w.Remove("/new") == nil, "Remove is accepted while the overflow error is still waiting to be received")
	err := <-w.Errors
	verifAssert(errors.Is(err, ErrEventOverflow), "the overflow is announced as ErrEventOverflow")
	ev := <-w.Events
	verifAssert(ev.Op == Write && ev.Name == "/t", "the record after the overflow marker is still delivered")
	verifAssert(w.Close() == nil, "Close")
	verifReach("overflow-ctl")
}

// C09/C07: the reader is held up by a slow consumer in the middle of a batch
// ([IN_DELETE_SELF wd][IN_IGNORED wd]); meanwhile the deleted path is re-created
// and added again. The old watch's IN_IGNORED must not take the new watch down.
func H_readd_midbatch() {
	verifKReset()
	w := verifNewInotifyN(0, 0, 0)
	verifSetupTable(w, 2)
	verifK.nIno = 3
	e := verifTable[1] // "/t/a" has a watched parent, "/u/b"-like paths are covered by the other population
	ei := 1
	if verifParam("TABLEB") != 0 {
		e, ei = verifTable[0], 0
	}
	verifAssume(verifK.marks[ei].state == kDying)
	withSelf := verifBool("delete-self-in-batch") // unlink of the last link: IN_ATTRIB, IN_DELETE_SELF, IN_IGNORED
	K := 2
	if withSelf {
		K = 3
	}
	n := verifInt("n")
	verifAssume(n == 16*K)
	verifK.script[0] = verifRead{n: n}
	verifK.nScript = 1
	verifK.blockAfter = true
	verifFillBuffer = func(i int, b []byte, n int) {
		if i == 0 {
			verifConstrainRecords(b, n, K, 16, false)
			verifAssume(verifRecs[0].mask == unix.IN_ATTRIB && uint32(verifRecs[0].wd) == e.wd && verifRecs[0].ln == 0)
			if withSelf {
				verifAssume(verifRecs[1].mask == unix.IN_DELETE_SELF && uint32(verifRecs[1].wd) == e.wd && verifRecs[1].ln == 0)
			}
			verifAssume(verifRecs[K-1].mask == unix.IN_IGNORED && uint32(verifRecs[K-1].wd) == e.wd && verifRecs[K-1].ln == 0)
		}
	}
	go w.readEvents()
	verifQuiesce() // the reader is parked offering the first event (Chmod: the file was unlinked)
	late := withSelf && verifBool("readd-after-delete-self")
	var nwd uint32
	verifK.addResolve = 2
	if !late {
		verifAssert(w.Add(e.path) == nil, "re-Add of the re-created path while the batch is only half handled")
		nwd = uint32(verifK.nextWd)
	}
	ev := <-w.Events
	verifAssert(ev.Name == e.path && ev.Op == Chmod, "first event of the batch")
	verifQuiesce() // the reader handles the rest of the batch as far as it can
	if late {
		// the old watch has ended (IN_DELETE_SELF handled; the reader may be parked offering its
		// Remove); the path is re-created and added again before the old watch's IN_IGNORED is handled
		verifAssert(w.Add(e.path) == nil, "re-Add of the re-created path after its old watch ended")
		nwd = uint32(verifK.nextWd)
		verifReach("readd-after-delete-self")
	}
	for i := 0; i < 2; i++ {
		select {
		case ev := <-w.Events:
			verifAssert(ev.Name == e.path && ev.Op&Remove != 0, "only the old file's Remove can follow")
		default:
		}
		verifQuiesce()
	}
	verifAssert(verifInList(w.WatchList(), e.path), "the re-added path stays listed after the old watch's IN_DELETE_SELF/IN_IGNORED")
	w.mu.Lock()
	ww := w.watches.wd[nwd]
	pwd, listed := w.watches.path[e.path]
	w.mu.Unlock()
	verifAssert(ww != nil && ww.path == e.path && listed && pwd == nwd, "the new watch stays in place, in both tables")
	verifAssert(w.Remove(e.path) == nil, "Remove of the re-added path succeeds")
	verifAssert(w.Close() == nil, "Close")
	verifReach("readd-midbatch")
}

// C14/C01: an unbuffered Watcher delivers events for the longest entry names.
func H_longname_unbuffered() {
	verifKReset()
	w := verifNewInotifyN(0, verifChoose("evcap", 2), 0)
	verifSetupTable(w, 1)
	n := verifInt("n")
	verifAssume(n == 16+256)
	verifK.script[0] = verifRead{n: n}
	verifK.nScript = 1
	verifK.blockAfter = true
	verifFillBuffer = func(i int, b []byte, n int) {
		if i == 0 {
			verifConstrainRecords(b, n, 1, 256, false)
			verifAssume(verifRecs[0].mask == unix.IN_CREATE && uint32(verifRecs[0].wd) == verifTable[0].wd && verifRecs[0].ln == 256 && verifRecs[0].nl >= 240)
		}
	}
	go w.readEvents()
	select {
	case ev := <-w.Events:
		verifAssert(ev.Op == Create && len(ev.Name) == len("/t/")+verifRecs[0].nl, "a 240..255 byte entry name is delivered in full, also by an unbuffered Watcher")
	case err := <-w.Errors:
		verifAssert(err == nil, "reading the longest legal record must not fail")
	}
	verifAssert(w.Close() == nil, "Close")
	verifReach("longname-unbuffered")
}

// C14: NewWatcher is NewBufferedWatcher with the platform's default buffer size
// (0 except on Windows, where it is 50), NewBufferedWatcher(n) has exactly n.
func H_default_buffer() {
	verifKReset()
	old := defaultBufferSize
	defaultBufferSize = [...]int{0, 1, 50}[verifChoose("platform-default", 3)]
	wt, err := NewWatcher()
	verifAssert(err == nil && wt != nil, "NewWatcher succeeds")
	verifAssert(cap(wt.Events) == defaultBufferSize, "NewWatcher's Events channel has the platform's default capacity")
	verifAssert(wt.Close() == nil, "Close")
	n := [...]int{0, 1, 7}[verifChoose("n", 3)]
	wb, err2 := NewBufferedWatcher(uint(n))
	verifAssert(err2 == nil && wb != nil && cap(wb.Events) == n, "NewBufferedWatcher(n) has capacity n")
	verifAssert(wb.Close() == nil, "Close")
	defaultBufferSize = old
	verifReach("default-buffer")
}
