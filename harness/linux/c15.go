package fsnotify

import "golang.org/x/sys/unix"

// C15 (inotify): translation = union of parts; request side = exactly what is needed.

// verifInotifyT is the documented table, as data.
var verifInotifyT = [...]struct {
	bit uint32
	op  Op
}{
	{unix.IN_CREATE, Create}, {unix.IN_MOVED_TO, Create},
	{unix.IN_DELETE, Remove}, {unix.IN_DELETE_SELF, Remove},
	{unix.IN_MODIFY, Write},
	{unix.IN_MOVED_FROM, Rename}, {unix.IN_MOVE_SELF, Rename},
	{unix.IN_ATTRIB, Chmod},
	{unix.IN_OPEN, xUnportableOpen}, {unix.IN_ACCESS, xUnportableRead},
	{unix.IN_CLOSE_WRITE, xUnportableCloseWrite}, {unix.IN_CLOSE_NOWRITE, xUnportableCloseRead},
}

func verifInotifyOps(mask uint32) Op {
	var want Op
	for _, r := range verifInotifyT {
		if mask&r.bit != 0 {
			want |= r.op
		}
	}
	return want
}

func H_inotify_newevent() {
	w := &inotify{}
	mask := verifU32("mask")
	cookie := verifU32("cookie")
	ev := w.newEvent("/t/n", mask, cookie)
	verifAssert(ev.Op == verifInotifyOps(mask), "inotify newEvent: Op is the union of what each native bit yields; housekeeping/unknown bits yield nothing")
	verifAssert(ev.Name == "/t/n", "newEvent keeps the name")
	if cookie == 0 {
		verifAssert(ev.renamedFrom == "", "no cookie, no old name")
		verifReach("newevent-nocookie")
	} else {
		verifReach("newevent-cookie")
	}
}

// Request side. For every requested op the native events that constitute it
// (Op documentation + inotify(7)) must be subscribed ("none of the requested
// operations is left unobservable"), and nothing may be subscribed that does
// not yield a requested op, except IN_MOVED_TO with Rename (the documented
// Create half of a watched rename).
var verifInotifyMust = [...]struct {
	op   Op
	bits uint32
}{
	{Create, unix.IN_CREATE},
	{Write, unix.IN_MODIFY},
	{Remove, unix.IN_DELETE | unix.IN_DELETE_SELF},
	{Rename, unix.IN_MOVED_FROM | unix.IN_MOVE_SELF},
	{Chmod, unix.IN_ATTRIB},
	{xUnportableOpen, unix.IN_OPEN},
	{xUnportableRead, unix.IN_ACCESS},
	{xUnportableCloseWrite, unix.IN_CLOSE_WRITE},
	{xUnportableCloseRead, unix.IN_CLOSE_NOWRITE},
}

func verifRequestSpec(m uint32, op Op, msg string) {
	var known uint32
	for _, r := range verifInotifyMust {
		verifAssert(verifImplies(op&r.op != 0, m&r.bits == r.bits), "requested op left unobservable: its native events are not all subscribed"+msg)
	}
	for _, r := range verifInotifyT {
		known |= r.bit
		allowed := verifOr(op&r.op != 0, verifAnd(r.bit == unix.IN_MOVED_TO, op&Rename != 0))
		verifAssert(verifImplies(m&r.bit != 0, allowed), "unrelated native event subscribed"+msg)
	}
	verifAssert(m&^(known|unix.IN_DONT_FOLLOW|unix.IN_MASK_ADD) == 0, "unknown flag requested"+msg)
}

func H_inotify_request() {
	verifKReset()
	verifK.addResolve = 0
	w := verifNewInotify(0)
	op := Op(verifU32("op"))
	noFollow := verifBool("nofollow")
	var err error
	if noFollow {
		err = w.AddWith("/t/a", withOps(op), withNoFollow())
	} else {
		err = w.AddWith("/t/a", withOps(op))
	}
	verifAssert(err == nil, "AddWith succeeds on inotify for every op set")
	verifAssert(verifK.addCalls == 1, "exactly one inotify_add_watch")
	verifAssert(verifK.lastAddFd == verifFd, "addresses the watcher's own fd")
	m := verifK.lastMask
	verifRequestSpec(m, op, "")
	verifAssert((m&unix.IN_DONT_FOLLOW != 0) == noFollow, "IN_DONT_FOLLOW exactly with noFollow")
	verifAssert(m&unix.IN_MASK_ADD == 0, "fresh path: no IN_MASK_ADD")
	verifReach("request")
}

// The default op set subscribes every native event that translates to one of
// the five portable operations (so none of C01's changes is unobservable).
func H_inotify_request_default() {
	verifKReset()
	verifK.addResolve = 0
	w := verifNewInotify(0)
	verifAssert(w.Add("/t/a") == nil, "Add")
	m := verifK.lastMask
	for _, r := range verifInotifyT {
		if r.op&(Create|Write|Remove|Rename|Chmod) != 0 {
			verifAssert(m&r.bit != 0, "default Add leaves a native event of a portable op unsubscribed")
		} else {
			verifAssert(m&r.bit == 0, "default Add subscribes an unportable event")
		}
	}
	verifAssert(m&unix.IN_DONT_FOLLOW == 0, "default follows symlinks")
	var known uint32
	for _, r := range verifInotifyT {
		known |= r.bit
	}
	verifAssert(m&^known == 0, "default Add requests a flag that is not one of the documented events (e.g. IN_EXCL_UNLINK would silence an unlinked file that is still open, IN_ONLYDIR would refuse files)")
	verifReach("request-default")
}

// Re-adding a listed path keeps the previously requested flags (IN_MASK_ADD).
func H_inotify_request_again() {
	verifKReset()
	verifK.addResolve = 0
	w := verifNewInotify(0)
	op1 := Op(verifU32("op1"))
	op2 := Op(verifU32("op2"))
	verifAssert(w.AddWith("/t/a", withOps(op1)) == nil, "first add")
	m1 := verifK.lastMask
	verifAssert(w.AddWith("/t/a", withOps(op2)) == nil, "second add")
	m2 := verifK.lastMask
	verifAssert(m2&unix.IN_MASK_ADD != 0, "re-add of a listed path uses IN_MASK_ADD")
	verifAssert(m2&m1 == m1, "earlier request retained")
	verifRequestSpec(m2, op1|op2, " (re-add)")
	verifReach("request-again")
}

func H_inotify_supports() {
	w := &inotify{}
	op := Op(verifU32("op"))
	verifAssert(w.xSupports(op), "inotify supports every op set")
	verifReach("supports")
}

func H_default_ops() {
	with := getOptions()
	verifAssert(with.op == Create|Write|Remove|Rename|Chmod, "default op set is the five portable ops")
	verifAssert(!with.noFollow, "default follows symlinks")
	verifReach("defaults")
}

// End to end: whatever native event the kernel was (last) asked to report for a
// file is delivered with exactly the operations the table gives for it - also
// when the file was added under a second name with another operation set (the
// kernel then reports by the newer mask; the Watcher keeps one record per file).
func H_inotify_delivered_ops() {
	verifKReset()
	verifK.addResolve = 0
	w := verifNewInotify(0)
	op1, op2 := Op(verifU32("op1")), Op(verifU32("op2"))
	verifAssert(w.AddWith("/t/a", withOps(op1)) == nil, "add")
	if verifBool("second-name") {
		verifAssert(w.AddWith("/t/b", withOps(op2)) == nil, "add of another name of the same file")
		verifReach("delivered-ops-alias")
	}
	m := verifMarkOf(uint32(verifK.nextWd))
	verifAssert(m != nil && m.state == kLive, "model: the file has one live mark")
	const deliverable = unix.IN_CREATE | unix.IN_MOVED_TO | unix.IN_DELETE | unix.IN_MODIFY | unix.IN_MOVED_FROM | unix.IN_ATTRIB |
		unix.IN_OPEN | unix.IN_ACCESS | unix.IN_CLOSE_WRITE | unix.IN_CLOSE_NOWRITE
	bits := verifU32("bits")
	verifAssume(bits != 0 && bits&^(m.mask&deliverable) == 0) // the kernel reports only what the mark's mask asks for
	ev, ok := verifFeed(w, uint32(m.wd), bits, 0, "")
	verifAssert(ok, "the reader keeps running")
	verifAssert(ev.Op == verifInotifyOps(bits), "a native event the kernel was asked to report is delivered with exactly the operations the table gives for it")
	verifAssert(ev.Name == "/t/a", "under the name the file was first added with")
	verifReach("delivered-ops")
}
