package fsnotify

import "golang.org/x/sys/unix"

// C11 — rename correlation through the 10-slot cookie ring.

var verifRingPaths = [...]string{"/r/0", "/r/1", "/r/2", "/r/3", "/r/4", "/r/5", "/r/6", "/r/7", "/r/8", "/r/9"}
var verifForeign = [...]string{"/f/0", "/f/1", "/f/2", "/f/3", "/f/4", "/f/5", "/f/6", "/f/7", "/f/8", "/f/9"}

// verifArbitraryRing: any ring content a history can have left behind (cookies
// of earlier, unrelated renames; zero = never used) and any index position.
func verifArbitraryRing(w *inotify) {
	for i := range w.cookies {
		w.cookies[i] = koekje{cookie: verifU32("ringcookie"), path: verifRingPaths[i]}
	}
	w.cookieIndex = verifU8("ringindex")
	verifAssume(w.cookieIndex <= 9)
}

func verifDistinctFromRing(w *inotify, c uint32) {
	for i := range w.cookies {
		verifAssume(w.cookies[i].cookie != c)
	}
}

func H_cookie_pair() {
	w := verifNewInotify(0)
	verifArbitraryRing(w)
	c := verifU32("cookie")
	verifAssume(c != 0)
	verifDistinctFromRing(w, c) // kernel contract: distinct renames carry distinct cookies
	isdir := verifU32("isdir") & unix.IN_ISDIR
	ev1 := w.newEvent("/t/old", unix.IN_MOVED_FROM|isdir, c)
	verifAssert(ev1.Op == Rename && ev1.Name == "/t/old" && ev1.renamedFrom == "", "first half: Rename of the old name")
	verifAssert(w.cookieIndex <= 9, "ring index stays in range")
	j := verifChoose("foreign-halves", verifParam("J")+1)
	var fc [10]uint32
	var fname [10]string
	nf := 0
	for i := 0; i < j; i++ {
		// halves of other moves interleaved by other threads: move-outs (whose move-in may
		// or may not follow), and the move-ins of earlier foreign move-outs
		if nf > 0 && verifParam("NONEST") == 0 && verifBool("foreign-is-movein") {
			q := verifChoose("which-foreign", nf)
			e := w.newEvent("/g/x", unix.IN_MOVED_TO, fc[q])
			verifAssert(e.Op == Create && e.renamedFrom == fname[q], "a foreign move's Create is paired with its own old name")
			verifReach("cookie-pair-nested")
		} else {
			ci := verifU32("foreigncookie")
			verifAssume(ci != 0 && ci != c)
			verifDistinctFromRing(w, ci)
			for q := 0; q < nf; q++ {
				verifAssume(ci != fc[q])
			}
			fc[nf] = ci
			fname[nf] = verifForeign[nf]
			if verifParam("NONEST") == 0 && verifBool("foreign-same-source") {
				// the old name was re-created and moved away again before the first move's second half arrived
				fname[nf] = "/t/old"
				verifReach("cookie-pair-same-source")
			}
			e := w.newEvent(fname[nf], unix.IN_MOVED_FROM, ci)
			nf++
			verifAssert(e.Op == Rename, "foreign half is a Rename")
		}
		verifAssert(w.cookieIndex <= 9, "ring index stays in range")
	}
	ev2 := w.newEvent("/t/new", unix.IN_MOVED_TO|isdir, c)
	verifAssert(ev2.Op == Create && ev2.Name == "/t/new", "second half: Create of the new name")
	verifAssert(ev2.renamedFrom == ev1.Name, "Create carries the old name of the same move (the Name of its Rename event)")
	verifAssert(ev2.String() == "CREATE        \"/t/new\" ← \"/t/old\"", "Event.String renders new <- old")
	if j == verifParam("J") {
		verifReach("cookie-pair-maxforeign")
	}
	verifReach("cookie-pair")
}

// A Create that is not the second half of a watched move never carries an old
// name: plain create / hard link (cookie 0), or a move-in whose cookie matches
// no remembered move-out - whatever unmatched move-outs the ring remembers.
func H_cookie_none() {
	w := verifNewInotify(0)
	verifArbitraryRing(w)
	mask := verifU32("mask")
	cookie := verifU32("cookie")
	kind := verifChoose("kind", 3)
	switch kind {
	case 0: // plain creation / hard link: cookie is 0 (inotify(7))
		verifAssume(mask&(unix.IN_MOVED_FROM|unix.IN_MOVED_TO) == 0)
		verifAssume(cookie == 0)
		verifAssume(mask&unix.IN_CREATE != 0)
	case 1: // move in from an unwatched place: its cookie matches no remembered move-out
		verifAssume(mask&unix.IN_MOVED_TO != 0 && mask&unix.IN_MOVED_FROM == 0)
		verifDistinctFromRing(w, cookie)
	case 2: // any non-move notification, whatever its cookie field
		verifAssume(mask&(unix.IN_MOVED_FROM|unix.IN_MOVED_TO) == 0)
	}
	ev := w.newEvent("/t/x", mask, cookie)
	verifAssert(ev.renamedFrom == "", "a Create that did not result from a watched move carries no old name")
	verifAssert(w.cookieIndex <= 9, "ring index stays in range")
	if kind == 1 && cookie != 0 {
		verifReach("cookie-none-movein")
	}
	verifReach("cookie-none")
}

// Chains: the second half of move k finds its own first half even though the
// ring already holds the (distinct) cookies of any earlier moves.
func H_cookie_chain() {
	w := verifNewInotify(0)
	verifArbitraryRing(w)
	n := verifParam("CHAIN")
	names := [...]string{"/t/n0", "/t/n1", "/t/n2", "/t/n3", "/t/n4", "/t/n5", "/t/n6", "/t/n7", "/t/n8", "/t/n9", "/t/n10", "/t/n11", "/t/n12"}
	var prev [13]uint32
	for k := 0; k < n; k++ {
		c := verifU32("cookie")
		verifAssume(c != 0)
		verifDistinctFromRing(w, c)
		for q := 0; q < k; q++ {
			verifAssume(c != prev[q])
		}
		prev[k] = c
		e1 := w.newEvent(names[k], unix.IN_MOVED_FROM, c)
		e2 := w.newEvent(names[k+1], unix.IN_MOVED_TO, c)
		verifAssert(e1.Op == Rename && e2.Op == Create, "halves translate to Rename / Create")
		verifAssert(e2.renamedFrom == names[k], "each move of a chain is paired with its own old name")
	}
	verifReach("cookie-chain")
}

// C05: after any three move halves - matched, unmatched (moved in from an
// unwatched place), repeated - every control call still returns.
func H_ctl_after_moves() {
	verifKReset()
	w := verifNewInotify(0)
	verifSetupTable(w, 2)
	halves := [...]uint32{unix.IN_MOVED_FROM, unix.IN_MOVED_TO}
	names := [...]string{"m0", "m1", "m2"}
	for i := 0; i < 3; i++ {
		m := halves[verifChoose("half", 2)]
		_, ok := verifFeed(w, verifTable[0].wd, m, verifU32("cookie"), names[i])
		verifAssert(ok, "the reader keeps running")
	}
	verifAssert(len(w.WatchList()) == 2, "WatchList returns")
	_ = w.Remove("/t/a") // returns (EINVAL if the kernel already dropped the mark)
	verifAssert(w.Close() == nil, "Close returns")
	verifReach("ctl-after-moves")
}
