package fsnotify

// C19 — recursive watches: true paths, exactly their own tree.

import (
	"errors"

	"golang.org/x/sys/unix"
)

type verifRecEnt struct {
	wd   uint32
	path string
}

var (
	verifRecT  [10]verifRecEnt
	verifNRecT int
)

// Trees whose sibling names share string prefixes.
var verifRecPaths = [...]string{"/r", "/r/dir1", "/r/dir10", "/r/dir1/x", "/r/sub", "/r/sub2", "/r2", "/r2/dir1", "/r/dir1/x/y", "/r/sub/r/sub"}

func verifSetupRec(w *inotify, n int) {
	enableRecurse = true
	verifNRecT = n
	for i := 0; i < n; i++ {
		wd := verifU32("wd")
		verifAssume(wd >= 1 && wd < 1<<30)
		for j := 0; j < i; j++ {
			verifAssume(wd != verifRecT[j].wd)
		}
		p := verifRecPaths[i]
		verifRecT[i] = verifRecEnt{wd: wd, path: p}
		w.watches.wd[wd] = &watch{wd: wd, flags: unix.IN_CREATE | unix.IN_MOVED_TO | unix.IN_MOVED_FROM | unix.IN_DELETE | unix.IN_MODIFY, path: p, recurse: true}
		w.watches.path[p] = wd
	}
	verifK.nextWd = 1 << 30
}

func verifDeliverName(w *inotify, wd uint32, mask, cookie uint32, name string) (Event, bool) {
	return verifFeed(w, wd, mask, cookie, name)
}

// below reports whether p is dir itself or below it, by path components.
func verifBelow(p, dir string) bool {
	return p == dir || (len(p) > len(dir) && p[:len(dir)] == dir && p[len(dir)] == '/')
}

func verifRecIndex(p string) int {
	for i := 0; i < verifNRecT; i++ {
		if verifRecT[i].path == p {
			return i
		}
	}
	return -1
}

func H_rec_rename() {
	verifKReset()
	w := verifNewInotify(0)
	verifSetupRec(w, len(verifRecPaths))
	// which inner directory is renamed, and to what
	type mv struct{ parent, old, new, toParent string }
	moves := [...]mv{{"/r", "dir1", "new", "/r"}, {"/r", "sub", "moved", "/r"}, {"/r", "dir10", "d", "/r"}, {"/r/dir1", "x", "y2", "/r/dir1"}, {"/r", "dir1", "dir100", "/r"},
		{"/r/dir1", "x", "x2", "/r/sub"}, {"/r", "dir1", "dir1", "/r/sub2"}}
	m := moves[verifChoose("move", len(moves))]
	pi := verifRecIndex(m.parent)
	ti := verifRecIndex(m.toParent)
	oldp, newp := m.parent+"/"+m.old, m.toParent+"/"+m.new
	oi := verifRecIndex(oldp)
	c := verifU32("cookie")
	verifAssume(c != 0)
	// any number of renames may have been seen before: the cookie ring index is arbitrary
	w.cookieIndex = verifU8("ringindex")
	verifAssume(w.cookieIndex <= 9)
	ev1, ok1 := verifDeliverName(w, verifRecT[pi].wd, unix.IN_MOVED_FROM|unix.IN_ISDIR, c, m.old)
	verifAssert(ok1 && ev1.Op == Rename && ev1.Name == oldp, "rename of an inner directory: Rename(old path)")
	// the kernel resolves the new name to the moved directory's inode: its existing watch
	verifK.addResolve = 0
	verifK.marks[0] = verifMark{state: kLive, wd: int32(verifRecT[oi].wd), ino: 0}
	ev2, ok2 := verifDeliverName(w, verifRecT[ti].wd, unix.IN_MOVED_TO|unix.IN_ISDIR, c, m.new)
	verifAssert(ok2 && ev2.Op == Create && ev2.Name == newp && ev2.renamedFrom == oldp, "rename of an inner directory: Create(new path) carrying the old one")
	for i := 0; i < verifNRecT; i++ {
		e := verifRecT[i]
		want := e.path
		if verifBelow(e.path, oldp) {
			want = newp + e.path[len(oldp):]
		}
		ww := w.watches.wd[e.wd]
		verifAssert(ww != nil, "a rename inside the tree must not drop any watch")
		if ww != nil {
			if verifBelow(e.path, oldp) {
				verifAssert(ww.path == want, "the renamed directory and its descendants are tracked under the new location")
			} else {
				verifAssert(ww.path == want, "an unrelated sibling (sharing only a string prefix) must keep its name")
			}
		}
		// later changes are reported with the true current path
		fe, okf := verifDeliverName(w, e.wd, unix.IN_CREATE, 0, "file")
		verifAssert(okf && fe.Op == Create && fe.Name == want+"/file", "changes below the tree are reported with the entry's true current path")
	}
	// A new directory is then created under the old name (one level, its Create delivered):
	// it must get its own watch, and the renamed directory must stay covered.
	verifK.addResolve = 1 // a new inode
	verifK.nIno = 2
	rmBefore := verifK.rmCalls
	ev3, ok3 := verifDeliverName(w, verifRecT[pi].wd, unix.IN_CREATE|unix.IN_ISDIR, 0, m.old)
	verifAssert(ok3 && ev3.Op == Create && ev3.Name == oldp, "a directory created under the old name is reported with its true path")
	moved := w.watches.wd[verifRecT[oi].wd]
	verifAssert(moved != nil && moved.path == newp, "the renamed directory stays covered under its new name when the old name is re-used")
	verifAssert(verifK.rmCalls == rmBefore, "re-using the old name must not remove the renamed directory's kernel watch")
	nwd := uint32(verifK.nextWd)
	fresh := w.watches.wd[nwd]
	verifAssert(nwd != verifRecT[oi].wd && fresh != nil && fresh.path == oldp, "the directory created under the old name gets its own watch")
	if fresh != nil {
		f1, k1 := verifDeliverName(w, nwd, unix.IN_CREATE, 0, "file")
		verifAssert(k1 && f1.Name == oldp+"/file", "changes in the new directory are reported under its own path")
	}
	f2, k2 := verifDeliverName(w, verifRecT[oi].wd, unix.IN_CREATE, 0, "file")
	verifAssert(k2 && f2.Op == Create && f2.Name == newp+"/file", "changes in the renamed directory are still reported, under its new path")
	verifReach("rec-rename")
}

func H_rec_remove() {
	verifKReset()
	w := verifNewInotify(0)
	verifSetupRec(w, len(verifRecPaths))
	for i := 0; i < verifNRecT; i++ {
		verifK.marks[i] = verifMark{state: kLive, wd: int32(verifRecT[i].wd), ino: i}
	}
	roots := [...]string{"/r", "/r2"}
	ri := verifChoose("root", len(roots))
	root := roots[ri]
	spelled := root + "/..."
	if verifChoose("readded-plain", 2) == 1 {
		// the root was added again under its plain name: it stays the root of a recursive watch
		verifK.nIno = verifNRecT
		for i := 0; i < verifNRecT; i++ {
			if verifRecT[i].path == root {
				verifK.addResolve = i
			}
		}
		verifAssert(w.Add(root) == nil, "Add of the root of a recursive watch under its plain name")
		if verifChoose("remove-plain", 2) == 1 {
			spelled = root
		}
		verifReach("rec-remove-readded")
	}
	err := w.Remove(spelled)
	verifAssert(err == nil, "removing a recursive root succeeds")
	for i := 0; i < verifNRecT; i++ {
		e := verifRecT[i]
		ww := w.watches.wd[e.wd]
		_, inPath := w.watches.path[e.path]
		if verifBelow(e.path, root) {
			verifAssert(ww == nil && !inPath, "removing a recursive watch removes the root and everything below it")
			verifAssert(verifRmLogged(e.wd) || verifK.rmCalls > len(verifK.rmLog), "every removed watch is released in the kernel")
		} else {
			verifAssert(ww != nil && inPath, "removing a recursive watch must not touch another tree whose name merely shares a string prefix")
			fe, okf := verifDeliverName(w, e.wd, unix.IN_CREATE, 0, "file")
			verifAssert(okf && fe.Op == Create && fe.Name == e.path+"/file", "the other tree keeps reporting")
		}
	}
	verifReach("rec-remove")
}

func H_rec_mkdir() {
	verifKReset()
	w := verifNewInotify(0)
	verifSetupRec(w, 5)
	pi := verifChoose("parent", 5)
	p := verifRecT[pi]
	verifK.nIno = 1
	verifK.marks[0] = verifMark{}
	fail := verifBool("fail")
	if fail {
		verifK.addResolve = 1 // >= nIno: the model fails with an arbitrary errno
	} else {
		verifK.addResolve = 0
	}
	ev, ok := verifDeliverName(w, p.wd, unix.IN_CREATE|unix.IN_ISDIR, 0, "nd")
	nd := p.path + "/nd"
	if fail {
		verifAssert(!ok || ev.Op != 0 || true, "")
		select {
		case e := <-w.Errors:
			verifAssert(e != nil, "a failed watch on the new directory is reported on Errors")
		default:
			verifFail("a failed watch on the new directory must be reported on Errors")
		}
		_, listed := w.watches.path[nd]
		verifAssert(!listed, "failed registration leaves the tables untouched")
		verifReach("rec-mkdir-fail")
		return
	}
	verifAssert(ok && ev.Op == Create && ev.Name == nd, "a new directory inside the tree is reported as Create with its true path")
	// covered from the moment its Create is delivered: the watch exists when handleEvent returns
	wd, listed := w.watches.path[nd]
	verifAssert(listed, "a directory created inside the tree is itself covered when its Create is delivered")
	if listed {
		ww := w.watches.wd[wd]
		verifAssert(ww != nil && ww.recurse && ww.path == nd, "the new directory's watch is recursive and carries its true path")
		fe, okf := verifDeliverName(w, wd, unix.IN_CREATE, 0, "file")
		verifAssert(okf && fe.Op == Create && fe.Name == nd+"/file", "changes inside the new directory are reported")
	}
	verifAssert(verifK.lastPath == nd, "the kernel watch is placed on the new directory")
	verifReach("rec-mkdir")
}

func H_rec_add() {
	verifKReset()
	enableRecurse = true
	w := verifNewInotify(0)
	verifK.nIno = 8
	shape := verifChoose("tree", 4)
	if shape == 3 {
		// a directory whose name merely ends in three dots is an ordinary path
		verifK.addResolve = 0
		verifAssert(w.Add("/r/cache...") == nil, "Add of a path whose last element ends in dots")
		wd, listed := w.watches.path["/r/cache..."]
		verifAssert(listed && len(w.watches.path) == 1, "only a last element that IS \"...\" makes a watch recursive; anything else is watched as given")
		if listed {
			verifAssert(!w.watches.wd[wd].recurse, "not a recursive watch")
		}
		verifAssert(verifK.lastPath == "/r/cache...", "the kernel watch is on the path as given")
		verifReach("rec-add-dots")
		return
	}
	switch shape {
	case 0:
		verifK.walk = []verifWalkEnt{{"/r", true}, {"/r/f", false}, {"/r/dir1", true}, {"/r/dir1/x", true}, {"/r/dir10", true}}
	case 1:
		verifK.walk = []verifWalkEnt{{"/r", true}}
	case 2:
		verifK.walk = []verifWalkEnt{{"/r", false}} // not a directory
	}
	// each directory resolves to its own inode
	n := 0
	verifAddSeq = func() int { n++; return n - 1 }
	err := w.Add("/r/...")
	if shape == 2 {
		verifAssert(err != nil, "a recursive watch on a non-directory is refused")
		verifAssert(len(w.watches.path) == 0, "refused recursive Add leaves nothing behind")
		verifReach("rec-add-notdir")
		return
	}
	verifAssert(err == nil, "recursive Add succeeds")
	for _, e := range verifK.walk {
		wd, listed := w.watches.path[e.path]
		verifAssert(listed == e.isDir, "exactly the directories of the tree are watched")
		if listed {
			ww := w.watches.wd[wd]
			verifAssert(ww != nil && ww.recurse && ww.path == e.path, "every directory of the tree gets a recursive watch under its true path")
		}
	}
	verifReach("rec-add")
}

// A directory of the tree is renamed onto another (empty) watched directory of
// the tree: the replaced directory's watch ends (IN_DELETE_SELF, IN_IGNORED),
// the renamed directory stays covered under the new name, and removing the
// recursive root afterwards still removes everything.
func H_rec_rename_onto() {
	verifKReset()
	w := verifNewInotify(0)
	verifSetupRec(w, len(verifRecPaths))
	w.cookieIndex = verifU8("ringindex")
	verifAssume(w.cookieIndex <= 9)
	pi, ai, bi := verifRecIndex("/r"), verifRecIndex("/r/sub"), verifRecIndex("/r/sub2")
	a, b := verifRecT[ai], verifRecT[bi]
	for i := 0; i < verifNRecT; i++ {
		verifK.marks[i] = verifMark{state: kLive, wd: int32(verifRecT[i].wd), ino: i}
	}
	verifK.nIno = verifNRecT
	c := verifU32("cookie")
	verifAssume(c != 0)
	ev1, ok1 := verifDeliverName(w, verifRecT[pi].wd, unix.IN_MOVED_FROM|unix.IN_ISDIR, c, "sub")
	verifAssert(ok1 && ev1.Op == Rename && ev1.Name == "/r/sub", "Rename(old)")
	verifK.addResolve = ai // the name sub2 now resolves to the renamed directory's inode
	ev2, ok2 := verifDeliverName(w, verifRecT[pi].wd, unix.IN_MOVED_TO|unix.IN_ISDIR, c, "sub2")
	verifAssert(ok2 && ev2.Op == Create && ev2.Name == "/r/sub2" && ev2.renamedFrom == "/r/sub", "Create(new) carrying the old name")
	// the replaced directory is gone: its own watch gets the terminal notifications
	verifK.marks[bi].state = kDying
	_, ok3 := verifDeliver2(w, b.wd, unix.IN_DELETE_SELF|unix.IN_ISDIR)
	_, ok4 := verifDeliver2(w, b.wd, unix.IN_IGNORED)
	verifAssert(ok3 && ok4, "reader keeps running")
	ww := w.watches.wd[a.wd]
	verifAssert(ww != nil && ww.path == "/r/sub2", "the renamed directory is tracked under the new name")
	k, listed := w.watches.path["/r/sub2"]
	verifAssert(listed && k == a.wd, "the new name maps to the renamed directory's watch, also after the replaced directory's watch has ended")
	fe, okf := verifDeliverName(w, a.wd, unix.IN_CREATE, 0, "file")
	verifAssert(okf && fe.Name == "/r/sub2/file", "changes in the renamed directory are reported under the new name")
	// removing the recursive root stops reports from the whole tree
	_ = w.Remove("/r/...")
	verifAssert(w.watches.wd[a.wd] == nil, "after Remove of the recursive root the renamed directory is no longer watched")
	late, _ := verifDeliverName(w, a.wd, unix.IN_CREATE, 0, "file2")
	verifAssert(late.Op == 0, "no event is reported from the removed tree after Remove has returned")
	verifReach("rec-rename-onto")
}

func verifDeliver2(w *inotify, wd uint32, mask uint32) (Event, bool) {
	return verifDeliverName(w, wd, mask, 0, "")
}

// C03 below a recursive watch: the records of one read are delivered in the
// order the kernel queued them, whatever they are (a directory created inside
// the tree gets its watch when its turn comes, not before).
func H_rec_order() {
	verifKReset()
	w := verifNewInotifyN(0, verifChoose("evcap", 2), 8)
	verifSetupRec(w, 5)
	verifK.nIno = 1
	verifK.marks[0] = verifMark{}
	verifK.addResolve = 0
	K := 2 + verifParam("RK")
	kinds := [...]uint32{unix.IN_CREATE, unix.IN_CREATE | unix.IN_ISDIR, unix.IN_MODIFY, unix.IN_DELETE, unix.IN_ATTRIB | unix.IN_ISDIR}
	names := [...]string{"n0", "n1", "n2"}
	p := verifRecT[verifChoose("parent", 5)]
	var m [3]uint32
	for k := 0; k < K; k++ {
		m[k] = kinds[verifChoose("kind", len(kinds))]
	}
	n := verifInt("n")
	verifAssume(n == 32*K)
	verifK.script[0] = verifRead{n: n}
	verifK.nScript = 1
	verifK.blockAfter = true
	verifFillBuffer = func(i int, b []byte, n int) {
		off := 0
		for k := 0; k < K; k++ {
			off += verifPutRecord(b, off, p.wd, m[k], 0, names[k])
		}
	}
	go w.readEvents()
	for k := 0; k < K; k++ {
		ev := <-w.Events
		verifAssert(ev.Name == p.path+"/"+names[k] && ev.Op == verifInotifyOps(m[k]), "events of one read are delivered in the order the kernel queued the records, also below a recursive watch")
	}
	verifAssert(w.Close() == nil, "Close")
	verifReach("rec-order")
}

// C07 for recursive watches: a recursive Add and a Remove of the same root from
// two goroutines are atomic with respect to each other - the outcome is that of
// one of the two orders.
func H_conc_rec_add() {
	verifKReset()
	enableRecurse = true
	w := verifNewInotifyN(0, 1, 1)
	verifK.nIno = 8
	verifK.walk = []verifWalkEnt{{"/r", true}, {"/r/a", true}, {"/r/b", true}}
	n := 0
	verifAddSeq = func() int { n++; return n - 1 }
	ra, rr := make(chan error, 1), make(chan error, 1)
	go func() { ra <- w.Add("/r/...") }()
	go func() { rr <- w.Remove("/r/...") }()
	ea, er := <-ra, <-rr
	verifAssert(ea == nil, "the recursive Add succeeds")
	l := w.WatchList()
	if er == nil {
		verifAssert(len(l) == 0, "Remove succeeded, so it ran after the whole recursive Add: nothing of the tree may stay watched (Add and Remove of a tree are atomic)")
		verifReach("conc-rec-add-then-remove")
	} else {
		verifAssert(errors.Is(er, ErrNonExistentWatch), "Remove before the Add fails with ErrNonExistentWatch")
		verifAssert(len(l) == 3, "Remove failed, so it ran before the Add: the whole tree is watched")
		verifReach("conc-rec-remove-then-add")
	}
}
