package fsnotify

// Kernel model for the inotify seams (DESIGN.md 3.2/3.3). The real code's
// calls to unix.InotifyInit1 / InotifyAddWatch / InotifyRmWatch,
// (*os.File).Read / Close, os.NewFile and filepath.WalkDir are redirected here,
// both in the symbolic engine and in the native replay.

import (
	"io/fs"
	"os"
	"time"
	"unsafe"

	"golang.org/x/sys/unix"
)

const (
	kNone  = 0
	kLive  = 1
	kDying = 2 // mark destroyed by the kernel; its IN_IGNORED (and stale events) may still be queued

	verifMaxMarks = 10
	verifFd       = 7
)

type verifMark struct {
	state int
	wd    int32
	ino   int
	mask  uint32
}

type verifRead struct {
	n   int
	err error
}

type verifKernel struct {
	marks      [verifMaxMarks]verifMark
	nIno       int // number of distinct inodes a path may resolve to
	nextWd     int32
	fd         int
	initFail   bool
	initFlags  int
	closed     bool
	closedCh   chan struct{}
	initCalls  int
	newFiles   int
	addCalls   int
	rmCalls    int
	closeCalls int
	reads      int
	lastPath   string
	lastMask   uint32
	lastAddFd  int
	lastIno    int
	lastRmFd   int
	lastRmWd   uint32
	rmLog      [12]uint32
	addResolve int // -1: chosen by the model; >=0: forced inode
	script     [4]verifRead
	nScript    int
	blockAfter bool // after the script: block until the file is closed (else return os.ErrClosed)
	walk       []verifWalkEnt
	walkErr    error
	file       *os.File
	sysOpens   int
	sysCloses  int
	feed       chan verifFeedRec // records handed one at a time to the reader goroutine (verifFeed)
}

// verifFeedRec is one kernel record handed to the reader through the read stub.
type verifFeedRec struct {
	nop              bool // rendezvous only: the reader is back in read(2)
	wd               uint32
	mask, cookie, ln uint32
	name             string
}

type verifWalkEnt struct {
	path  string
	isDir bool
}

// Two independent inotify instances (C14 runs two watchers side by side);
// verifK is instance 0, which every single-watcher harness uses.
var verifKs [2]verifKernel
var verifK = &verifKs[0]

func verifKOfFd(fd int) *verifKernel {
	if fd == verifFd+1 {
		return &verifKs[1]
	}
	return &verifKs[0]
}

func verifKOfFile(f *os.File) *verifKernel {
	if verifKs[1].file != nil && verifKs[1].file == f {
		return &verifKs[1]
	}
	return &verifKs[0]
}

// verifAddSeq, when set, picks the inode each successive add_watch resolves to.
var verifAddSeq func() int

func verifKReset() {
	verifAddSeq = nil
	verifInitSeq = 0
	verifKs[0] = verifKernel{fd: verifFd, nIno: 3, addResolve: -1, closedCh: make(chan struct{})}
	verifKs[1] = verifKernel{fd: verifFd + 1, nIno: 3, addResolve: -1, closedCh: make(chan struct{})}
}

var verifInitSeq int

var verifAddErrnos = [...]unix.Errno{unix.ENOENT, unix.ENOTDIR, unix.ELOOP, unix.ENAMETOOLONG, unix.ENOSPC, unix.EACCES}

func verifInotifyInit1(flags int) (int, error) {
	k := &verifKs[verifInitSeq%2] // successive instances
	verifInitSeq++
	k.initCalls++
	k.initFlags = flags
	if k.initFail {
		return -1, unix.EMFILE
	}
	return k.fd, nil
}

func verifNewFile(fd uintptr, name string) *os.File {
	k := verifKOfFd(int(fd))
	k.newFiles++
	k.file = &os.File{}
	return k.file
}

func verifInotifyAddWatch(fd int, path string, mask uint32) (int, error) {
	k := verifKOfFd(fd)
	k.addCalls++
	k.lastPath, k.lastMask, k.lastAddFd = path, mask, fd
	if k.closed || fd != k.fd {
		return -1, unix.EBADF
	}
	r := k.addResolve
	if verifAddSeq != nil {
		r = verifAddSeq()
	} else if r < 0 {
		// adversarial file system: the path resolves to any inode, or fails
		r = verifChoose("add.resolve", k.nIno+1)
	}
	k.lastIno = r
	if r >= k.nIno {
		return -1, verifAddErrnos[verifChoose("add.errno", len(verifAddErrnos))]
	}
	for i := range k.marks {
		m := &k.marks[i]
		if m.state == kLive && m.ino == r {
			if mask&unix.IN_MASK_ADD != 0 {
				m.mask |= mask &^ unix.IN_MASK_ADD
			} else {
				m.mask = mask
			}
			return int(m.wd), nil
		}
	}
	for i := range k.marks {
		m := &k.marks[i]
		if m.state == kNone {
			k.nextWd++ // never reused (idr_alloc_cyclic; wrap-around is outside the claim)
			*m = verifMark{state: kLive, wd: k.nextWd, ino: r, mask: mask &^ unix.IN_MASK_ADD}
			return int(m.wd), nil
		}
	}
	verifAssume(false) // more marks than the model bound: outside the claim
	return -1, unix.ENOSPC
}

func verifInotifyRmWatch(fd int, wd uint32) (int, error) {
	k := verifKOfFd(fd)
	if k.rmCalls < len(k.rmLog) {
		k.rmLog[k.rmCalls] = wd
	}
	k.rmCalls++
	k.lastRmFd, k.lastRmWd = fd, wd
	if k.closed || fd != k.fd {
		return -1, unix.EBADF
	}
	for i := range k.marks {
		m := &k.marks[i]
		if m.state == kLive && uint32(m.wd) == wd {
			m.state = kDying
			return 0, nil
		}
	}
	return -1, unix.EINVAL
}

func verifRmLogged(wd uint32) bool {
	k := verifK
	for i := 0; i < k.rmCalls && i < len(k.rmLog); i++ {
		if k.rmLog[i] == wd {
			return true
		}
	}
	return false
}

func verifInotifyRead(f *os.File, b []byte) (int, error) {
	k := verifKOfFile(f)
	i := k.reads
	k.reads++
	if k.closed {
		return 0, os.ErrClosed
	}
	if i < k.nScript {
		r := k.script[i]
		if r.err != nil {
			return 0, r.err
		}
		if len(b) < r.n {
			// inotify(7): a read with a buffer too small for the next event fails with EINVAL
			// (conservatively: the buffer must hold what the kernel has queued for this read)
			return 0, unix.EINVAL
		}
		verifHavoc(b)
		verifFillBuffer(i, b, r.n)
		return r.n, nil
	}
	if k.feed != nil {
		for {
			select {
			case r := <-k.feed:
				if r.nop {
					continue
				}
				n := unix.SizeofInotifyEvent + int(r.ln)
				if len(b) < n {
					return 0, unix.EINVAL
				}
				return verifPutRecord(b, 0, r.wd, r.mask, r.cookie, r.name), nil
			case <-k.closedCh:
				return 0, os.ErrClosed
			}
		}
	}
	if k.blockAfter {
		<-k.closedCh // the poller releases a pending read when the file is closed
	}
	return 0, os.ErrClosed
}

// verifPutRecord writes one inotify record (header, name, NUL padding to a
// multiple of 16) at b[off:] and returns its length.
func verifPutRecord(b []byte, off int, wd, mask, cookie uint32, name string) int {
	ln := 0
	if name != "" {
		ln = (len(name)/16 + 1) * 16
	}
	ev := (*unix.InotifyEvent)(unsafe.Pointer(&b[off]))
	ev.Wd, ev.Mask, ev.Cookie, ev.Len = int32(wd), mask, cookie, uint32(ln)
	for i := 0; i < ln; i++ {
		if i < len(name) {
			b[off+unix.SizeofInotifyEvent+i] = name[i]
		} else {
			b[off+unix.SizeofInotifyEvent+i] = 0
		}
	}
	return unix.SizeofInotifyEvent + ln
}

// verifFeed hands one kernel record to the Watcher the way the kernel does: the
// reader goroutine (started on first use) gets it from read(2), runs the real
// decode loop and handleEvent on it and sends what results. Returns the event
// delivered for the record (zero Event if none) and whether the reader is still
// running. The calls are rendezvous: on return the reader is parked in read(2).
func verifFeed(w *inotify, wd, mask, cookie uint32, name string) (Event, bool) {
	k := verifKOfFd(w.fd)
	if k.feed == nil {
		k.feed = make(chan verifFeedRec)
		go w.readEvents()
	}
	var ln uint32
	if name != "" {
		ln = uint32((len(name)/16 + 1) * 16)
	}
	select {
	case k.feed <- verifFeedRec{wd: wd, mask: mask, cookie: cookie, ln: ln, name: name}:
	case <-w.doneResp:
		return Event{}, false
	}
	nop := verifFeedRec{nop: true}
	select {
	case ev := <-w.Events:
		select {
		case k.feed <- nop:
			return ev, true
		case <-w.doneResp:
			return ev, false
		}
	case k.feed <- nop:
		select {
		case ev := <-w.Events: // buffered Events: the event is already queued
			return ev, true
		default:
			return Event{}, true
		}
	case <-w.doneResp:
		return Event{}, false
	}
}

// verifFillBuffer is set by the harness to constrain/define buffer contents of read i.
var verifFillBuffer = func(i int, b []byte, n int) {}

func verifFileClose(f *os.File) error {
	k := verifKOfFile(f)
	k.closeCalls++
	if k.closed {
		return os.ErrClosed
	}
	k.closed = true
	for i := range k.marks { // closing the instance frees all its marks
		k.marks[i].state = kNone
	}
	close(k.closedCh)
	return nil
}

func verifWalkDir(root string, fn fs.WalkDirFunc) error {
	k := verifK
	if k.walkErr != nil {
		return fn(root, nil, k.walkErr)
	}
	for _, e := range k.walk {
		if err := fn(e.path, verifDirEnt{e}, nil); err != nil {
			if err == fs.SkipDir || err == fs.SkipAll {
				continue
			}
			return err
		}
	}
	return nil
}

type verifDirEnt struct{ e verifWalkEnt }

func (d verifDirEnt) Name() string               { return d.e.path }
func (d verifDirEnt) IsDir() bool                { return d.e.isDir }
func (d verifDirEnt) Type() fs.FileMode          { return 0 }
func (d verifDirEnt) Info() (fs.FileInfo, error) { return nil, nil }

// verifNewInotify builds a watcher value directly (no NewWatcher, no reader goroutine).
func verifNewInotify(evCap int) *inotify { return verifNewInotifyN(0, evCap, 8) }

// verifNewInotifyN builds watcher instance inst with the given channel capacities.
func verifNewInotifyN(inst, evCap, errCap int) *inotify {
	ev, errs := make(chan Event, evCap), make(chan error, errCap)
	f := &os.File{}
	verifKs[inst].file = f
	return &inotify{
		shared:      newShared(ev, errs),
		Events:      ev,
		Errors:      errs,
		fd:          verifFd + inst,
		inotifyFile: f,
		watches:     newWatches(),
		doneResp:    make(chan struct{}),
	}
}

// The inotify backend does not consult the file system today; should a change
// make it do so, the answer is adversarial: the name may or may not exist at
// that instant, whatever the kernel watches say (names and inodes are
// independent: hard links, open descriptors, races with other processes).
type verifAnyFI struct {
	name string
	dir  bool
}

func (f verifAnyFI) Name() string       { return f.name }
func (f verifAnyFI) Size() int64        { return 0 }
func (f verifAnyFI) ModTime() time.Time { return time.Time{} }
func (f verifAnyFI) IsDir() bool        { return f.dir }
func (f verifAnyFI) Sys() interface{}   { return nil }
func (f verifAnyFI) Mode() fs.FileMode {
	if f.dir {
		return fs.ModeDir | 0o755
	}
	return 0o644
}

func verifStatAny(name string) (os.FileInfo, error) {
	switch verifChoose("stat", 3) {
	case 0:
		return nil, unix.ENOENT
	case 1:
		return verifAnyFI{name: name, dir: true}, nil
	}
	return verifAnyFI{name: name}, nil
}

// Descriptors the backend might open directly (it does not today): counted, so
// that "everything opened is closed again" can be asserted.
func verifSysOpen(path string, mode int, perm uint32) (int, error) {
	verifK.sysOpens++
	return 200 + verifK.sysOpens, nil
}

func verifSysClose(fd int) error {
	verifK.sysCloses++
	return nil
}

func verifSysRead(fd int, p []byte) (int, error) {
	if verifChoose("sysread", 2) == 0 {
		return 0, unix.EIO
	}
	return 0, nil
}
