package fsnotify

// One inductive step of Add / Remove / WatchList from an arbitrary state
// satisfying the invariant J (DESIGN.md 3.4), against the sequential
// specification of C04 and the kernel-side invariant of C12.

import (
	"errors"
	"path/filepath"
)

// Spellings: every table path in several equivalent spellings, plus unlisted paths.
var verifSpellings = [...]string{
	"/t", "/t/", "//t", "/t/.", "/u/../t",
	"/t/a", "/t//a", "/t/./a", "/t/a/", "/t/b/../a",
	"/u/b", "/u/./b",
	"rel/d", "./rel/d", "rel//d/", "rel/x/../d",
	"/new", "/new/", "other", "./other", "/t/ab", "/t/a/x",
}

type verifSnapshot struct {
	marks  [verifMaxMarks]verifMark
	table  [4]verifEnt
	ntable int
	rm     int
	add    int
}

func verifSnap() verifSnapshot {
	return verifSnapshot{marks: verifK.marks, table: verifTable, ntable: verifNTable, rm: verifK.rmCalls, add: verifK.addCalls}
}

func verifMarkOf(wd uint32) *verifMark {
	for i := range verifK.marks {
		m := &verifK.marks[i]
		if m.state != kNone && uint32(m.wd) == wd {
			return m
		}
	}
	return nil
}

// verifJ asserts the bookkeeping/kernel invariant after an operation.
func verifJ(w *inotify, when string) {
	// J1/J2: the two tables are inverse to each other
	np := 0
	for p, wd := range w.watches.path {
		np++
		ww := w.watches.wd[wd]
		verifAssert(ww != nil, "J1: path-table entry whose wd is missing from the wd table (dangling path)"+when)
		if ww != nil {
			verifAssert(ww.path == p, "J1: path-table entry pointing at another path's watch"+when)
		}
	}
	nw := 0
	for wd, ww := range w.watches.wd {
		nw++
		verifAssert(ww != nil && ww.wd == wd, "J2: wd-table entry with inconsistent wd"+when)
		if ww != nil {
			k, ok := w.watches.path[ww.path]
			verifAssert(ok && k == wd, "J2: wd-table entry not reachable through the path table"+when)
		}
		// J4: every entry is backed by a kernel mark (live, or dying with its terminal notification in flight)
		verifAssert(verifMarkOf(wd) != nil, "J4: table entry without any kernel watch behind it"+when)
	}
	verifAssert(np == nw, "tables differ in size"+when)
	// J3: no orphaned kernel watch
	for i := range verifK.marks {
		m := &verifK.marks[i]
		if m.state == kLive {
			verifAssert(w.watches.wd[uint32(m.wd)] != nil, "J3: live kernel watch without a table entry (leaked; its events are silently dropped)"+when)
		}
	}
}

func verifListOf(w *inotify) []string {
	verifLockMon(true)
	l := w.WatchList()
	verifLockMon(false)
	return l
}

func verifInList(l []string, p string) bool {
	for _, x := range l {
		if x == p {
			return true
		}
	}
	return false
}

// verifCheckList: WatchList has exactly the expected paths, once each.
func verifCheckList(w *inotify, expect []string, msg string) {
	l := verifListOf(w)
	verifAssert(len(l) == len(expect), "WatchList has the wrong number of paths"+msg)
	for _, p := range expect {
		verifAssert(verifInList(l, p), "a watched path is missing from WatchList"+msg)
	}
	for i := range l {
		for j := 0; j < i; j++ {
			verifAssert(l[i] != l[j], "WatchList shows a path twice"+msg)
		}
	}
}

func verifLivePaths(skip string, add string) []string {
	var out []string
	for i := 0; i < verifNTable; i++ {
		if verifTable[i].live && verifTable[i].path != skip {
			out = append(out, verifTable[i].path)
		}
	}
	if add != "" {
		out = append(out, add)
	}
	return out
}

func verifEntryByPath(p string) int {
	for i := 0; i < verifNTable; i++ {
		if verifTable[i].live && verifTable[i].path == p {
			return i
		}
	}
	return -1
}

func H_step_add() {
	W := verifParam("W")
	verifKReset()
	w := verifNewInotify(0)
	verifSetupTable(w, W)
	verifK.nIno = W + 1
	arg := verifSpellings[verifChoose("spelling", len(verifSpellings))]
	c := filepath.Clean(arg)
	pre := verifSnap()
	li := verifEntryByPath(c)
	_ = w.WatchList() // an earlier look at the list must not influence later answers

	verifLockMon(true)
	err := w.Add(arg)
	verifLockMon(false)

	verifAssert(verifK.addCalls == pre.add+1, "Add makes exactly one inotify_add_watch call")
	verifAssert(verifK.lastPath == c, "Add passes the cleaned spelling to the kernel")
	if err != nil {
		// failed Add: nothing changed
		verifAssert(verifK.marks == pre.marks, "failed Add changed kernel watches")
		verifCheckList(w, verifLivePaths("", ""), " after a failed Add")
		verifCheckTables(w)
		verifAssert(verifK.rmCalls == pre.rm, "failed Add removed a kernel watch")
		verifReach("add-failed")
		return
	}
	// which mark does the path resolve to now?
	var got *verifMark
	for i := range verifK.marks {
		m := &verifK.marks[i]
		if m.state == kLive && m.ino == verifLastResolved() {
			got = m
		}
	}
	verifAssert(got != nil, "model: successful add leaves a live mark")
	ai := -1 // entry that already watched this file (alias), by the pre-state
	for i := 0; i < verifNTable; i++ {
		pm := pre.marks[i] // setup: entry i is backed by mark i
		if pm.state == kLive && uint32(pm.wd) == uint32(got.wd) {
			ai = i
		}
	}
	switch {
	case ai >= 0 && ai == li:
		verifCheckList(w, verifLivePaths("", ""), " after re-adding a watched path")
		verifReach("add-same")
	case ai >= 0 && li < 0:
		verifCheckList(w, verifLivePaths("", ""), " after adding another name of a watched file")
		ww := w.watches.wd[uint32(got.wd)]
		verifAssert(ww != nil && ww.path == verifTable[ai].path, "alias: the first spelling stays in use")
		verifReach("add-alias")
	case ai >= 0 && li >= 0:
		// listed path re-pointed to a file that is already watched under another name
		old := verifTable[li].wd
		verifAssert(verifRmLogged(old) || pre.marks[li].state != kLive, "re-pointed path: the old kernel watch must be released")
		verifCheckList(w, verifLivePaths(c, ""), " after re-adding a listed path that now names an already-watched file (one path per file)")
		verifReach("add-repoint-alias")
	case ai < 0 && li >= 0:
		old := verifTable[li].wd
		verifAssert(verifRmLogged(old) || pre.marks[li].state != kLive, "re-pointed path: the old kernel watch must be released")
		verifCheckList(w, verifLivePaths("", ""), " after re-adding a listed path that now names another file")
		ww := w.watches.wd[uint32(got.wd)]
		verifAssert(ww != nil && ww.path == c, "re-pointed path is watched under the new wd")
		verifReach("add-repoint")
	default:
		verifCheckList(w, verifLivePaths("", c), " after adding a new path")
		ww := w.watches.wd[uint32(got.wd)]
		verifAssert(ww != nil && ww.path == c && ww.wd == uint32(got.wd), "new path is stored under the cleaned spelling, never the resolved target")
		verifReach("add-new")
	}
	verifJ(w, " after Add")
}

func verifLastResolved() int { return verifK.lastIno }

func H_step_remove() {
	W := verifParam("W")
	verifKReset()
	w := verifNewInotify(0)
	verifSetupTable(w, W)
	arg := verifSpellings[verifChoose("spelling", len(verifSpellings))]
	c := filepath.Clean(arg)
	pre := verifSnap()
	li := verifEntryByPath(c)
	_ = w.WatchList()

	verifLockMon(true)
	err := w.Remove(arg)
	verifLockMon(false)

	if li < 0 {
		verifAssert(err != nil && errors.Is(err, ErrNonExistentWatch), "Remove of an unlisted path fails with ErrNonExistentWatch")
		verifAssert(verifK.rmCalls == pre.rm && verifK.marks == pre.marks, "failed Remove touched the kernel")
		verifCheckList(w, verifLivePaths("", ""), " after a failed Remove")
		verifCheckTables(w)
		verifReach("remove-unlisted")
		return
	}
	k := verifTable[li].wd
	verifAssert(verifK.rmCalls == pre.rm+1 && verifK.lastRmWd == k && verifK.lastRmFd == verifFd, "Remove issues exactly one inotify_rm_watch, for the path's own wd, on the watcher's own fd")
	if pre.marks[li].state == kLive {
		verifAssert(err == nil, "Remove of a watched path succeeds")
		verifReach("remove-live")
	} else {
		verifReach("remove-dying")
	}
	verifTable[li].live = false
	verifCheckList(w, verifLivePaths("", ""), " after Remove")
	verifCheckTables(w)
	verifJ(w, " after Remove")
	// a second Remove now reports ErrNonExistentWatch
	err2 := w.Remove(arg)
	verifAssert(err2 != nil && errors.Is(err2, ErrNonExistentWatch), "second Remove of the same path reports ErrNonExistentWatch")
}

func H_step_list() {
	W := verifParam("W")
	verifKReset()
	w := verifNewInotify(0)
	verifSetupTable(w, W)
	verifCheckList(w, verifLivePaths("", ""), " (WatchList of an arbitrary state)")
	verifJ(w, " (setup)")
	verifReach("list")
}
