package fsnotify

import (
	"errors"
	"path/filepath"

	"golang.org/x/sys/unix"
)

// C09 — a watch ends when its path is deleted or renamed, and can be re-added.

func verifDeliver(w *inotify, wd uint32, mask, cookie uint32) (Event, bool) {
	return verifFeed(w, wd, mask, cookie, "")
}

func H_ended_then_ops() {
	W := verifParam("W")
	verifKReset()
	w := verifNewInotify(0)
	verifSetupTable(w, W)
	verifK.nIno = W + 1
	i := verifChoose("entry", W)
	e := verifTable[i]
	kind := verifChoose("ending", 4)
	mask := verifU32("extra") & (unix.IN_ISDIR | unix.IN_ATTRIB | unix.IN_MODIFY) // other bits may ride along
	switch kind {
	case 0:
		mask = unix.IN_IGNORED
	case 1:
		mask = unix.IN_UNMOUNT
	case 2:
		mask |= unix.IN_DELETE_SELF
	case 3:
		mask |= unix.IN_MOVE_SELF
	}
	if kind != 3 {
		verifAssume(verifK.marks[i].state == kDying) // kernel contract
	}
	verifCheckList(w, verifLivePaths("", ""), " before the path went away") // the list was looked at before, too
	ev, ok := verifDeliver(w, e.wd, mask, 0)
	verifAssert(ok, "handleEvent keeps the reader running")
	if kind == 3 {
		verifAssert(ev.Op&Rename != 0 && ev.Name == e.path, "rename of the watched path is reported as Rename of that path")
		verifAssert(verifRmLogged(e.wd), "the moved file's kernel watch is removed")
	}
	if kind == 0 || kind == 1 {
		verifAssert(ev.Op == 0, "housekeeping notifications never surface")
		verifK.marks[i].state = kNone
	}
	if kind == 2 {
		verifTable[i].live = false // the watch itself has ended: it does not count as its own parent (Dir(".") is ".")
		parentListed := verifListed(verifDir(e.path))
		verifAssert((ev.Op&Remove != 0) == !parentListed, "Remove for the deleted watched path unless the watched parent reports it")
	}
	verifTable[i].live = false
	// the watch has ended
	verifCheckList(w, verifLivePaths("", ""), " after the watched path was deleted/renamed")
	err := w.Remove(e.path)
	verifAssert(err != nil && errors.Is(err, ErrNonExistentWatch), "Remove on an ended watch reports ErrNonExistentWatch")
	// nothing further is reported for the old wd (e.g. the moved file changing, stale records)
	later, ok2 := verifDeliver(w, e.wd, verifU32("latermask")&^uint32(unix.IN_Q_OVERFLOW), 0)
	verifAssert(ok2 && later.Op == 0 && later.Name == "", "an ended watch reports nothing further")
	verifJ(w, " after the watch ended")
	// and the path can be added again to watch the new file
	verifK.addResolve = W // a new file under the old name: an inode not watched so far
	pre := verifK.nextWd
	verifAssert(w.Add(e.path) == nil, "an ended watch's path can be added again")
	verifAssert(verifK.nextWd == pre+1, "re-add creates a new kernel watch")
	nwd := uint32(verifK.nextWd)
	ww := w.watches.wd[nwd]
	verifAssert(ww != nil && ww.path == e.path, "re-added path is watched under its new wd")
	verifCheckList(w, verifLivePaths("", e.path), " after re-adding the path")
	got, ok3 := verifDeliver(w, nwd, unix.IN_MODIFY, 0)
	verifAssert(ok3 && got.Op == Write && got.Name == e.path, "the new watch reports the new file's changes")
	verifJ(w, " after re-add")
	verifReach("ended-then-ops")
}

func verifDir(p string) string {
	for i := len(p) - 1; i > 0; i-- {
		if p[i] == '/' {
			return p[:i]
		}
	}
	if len(p) > 0 && p[0] == '/' {
		return "/"
	}
	return "."
}

// Unlink while a descriptor is open: IN_ATTRIB keeps the watch (Chmod), the
// later IN_DELETE_SELF ends it.
func H_unlink_open() {
	W := verifParam("W")
	verifKReset()
	w := verifNewInotify(0)
	verifSetupTable(w, W)
	i := verifChoose("entry", W)
	e := verifTable[i]
	verifAssume(verifK.marks[i].state == kLive)
	ev, ok := verifDeliver(w, e.wd, unix.IN_ATTRIB, 0)
	verifAssert(ok && ev.Op == Chmod && ev.Name == e.path, "unlink with an open descriptor is reported as Chmod")
	verifCheckList(w, verifLivePaths("", ""), " while the unlinked file is still open")
	verifJ(w, " after IN_ATTRIB")
	// the watched parent (if any) reports the unlink of the name
	dir, base := verifDir(e.path), filepath.Base(e.path)
	if pi := verifEntryByPath(dir); pi >= 0 && pi != i && dir+"/"+base == e.path {
		evd, okd := verifDeliverNamed(w, verifTable[pi].wd, unix.IN_DELETE, 0, base)
		verifAssert(okd && evd.Op == Remove && evd.Name == e.path, "the watched parent reports the unlink")
		verifCheckList(w, verifLivePaths("", ""), " after the parent reported the unlink of a file that is still open")
		verifReach("unlink-open-parent-watched")
	}
	// the file lives on through the open descriptor, and so does its watch
	evw, okw := verifDeliver(w, e.wd, unix.IN_MODIFY, 0)
	verifAssert(okw && evw.Op == Write && evw.Name == e.path, "the watch of a file unlinked while open lasts until the last descriptor is closed: a write through it is still reported")
	verifJ(w, " after a write to the unlinked file")
	verifK.marks[i].state = kDying // last descriptor closed: the kernel destroys the mark
	ev2, ok2 := verifDeliver(w, e.wd, unix.IN_DELETE_SELF, 0)
	verifAssert(ok2, "reader keeps running")
	verifTable[i].live = false
	verifAssert((ev2.Op == Remove && ev2.Name == e.path) || (ev2.Op == 0 && verifListed(verifDir(e.path))), "Remove once the last descriptor is closed, unless the watched parent already reported it")
	verifCheckList(w, verifLivePaths("", ""), " after the last descriptor was closed")
	verifReach("unlink-open")
}

// C02: no event is reported for a watch after the Remove call for it returned,
// even though the kernel may still have records for it queued (and the name is
// re-used for a new watch).
func H_remove_then_stale() {
	W := verifParam("W")
	verifKReset()
	w := verifNewInotify(0)
	verifSetupTable(w, W)
	verifK.nIno = W + 1
	i := verifChoose("entry", W)
	e := verifTable[i]
	_ = w.Remove(e.path) // may report EINVAL if the kernel already dropped the mark
	verifTable[i].live = false
	stale, ok := verifDeliver(w, e.wd, verifU32("stalemask")&^uint32(unix.IN_Q_OVERFLOW), verifU32("stalecookie"))
	verifAssert(ok && stale.Op == 0, "a record queued before Remove returned must not surface afterwards")
	verifK.addResolve = verifChoose("readd-ino", W+1)
	pre := verifK.nextWd
	err := w.Add(e.path)
	verifAssert(err == nil, "re-Add after Remove succeeds")
	if verifK.nextWd == pre+1 {
		verifAssert(uint32(verifK.nextWd) != e.wd, "kernel contract: watch descriptors are not reused")
		stale2, ok2 := verifDeliver(w, e.wd, verifU32("stalemask2")&^uint32(unix.IN_Q_OVERFLOW), 0)
		verifAssert(ok2 && stale2.Op == 0, "stale records of the removed watch stay silent after the name is watched again")
		verifReach("stale-after-readd")
	}
	verifJ(w, " after Remove + re-Add")
	verifReach("remove-then-stale")
}

// C09: a watched file is deleted (or unlinked with a descriptor held open) and
// re-created; the path is added again before the reader has handled the old
// watch's terminal notifications. Those late notifications must not tear down
// the new watch.
func H_readd_then_stale() {
	W := verifParam("W")
	verifKReset()
	w := verifNewInotify(0)
	verifSetupTable(w, W)
	verifK.nIno = W + 1
	i := verifChoose("entry", W)
	e := verifTable[i]
	verifAssume(verifK.marks[i].state == kDying) // the old file is gone: the kernel has destroyed its mark
	verifK.addResolve = W                        // the name now refers to a new file
	verifAssert(w.Add(e.path) == nil, "re-Add of the re-created path succeeds")
	nwd := uint32(verifK.nextWd)
	verifAssert(nwd != e.wd, "model: new watch descriptor")
	// late terminal notifications of the old watch
	mask := [...]uint32{unix.IN_IGNORED, unix.IN_DELETE_SELF, unix.IN_ATTRIB, unix.IN_DELETE_SELF | unix.IN_ATTRIB}[verifChoose("late", 4)]
	old, ok := verifDeliver(w, e.wd, mask, 0)
	verifAssert(ok && old.Op == 0, "late notifications of the replaced watch report nothing")
	_, ok2 := verifDeliver(w, e.wd, unix.IN_IGNORED, 0)
	verifAssert(ok2, "reader keeps running")
	verifK.marks[i].state = kNone
	verifCheckList(w, verifLivePaths("", ""), " after the old watch's late notifications (the re-added path must stay listed)")
	got, ok3 := verifDeliver(w, nwd, unix.IN_MODIFY, 0)
	verifAssert(ok3 && got.Op == Write && got.Name == e.path, "the new watch keeps reporting")
	verifAssert(w.Remove(e.path) == nil, "the re-added path can be removed")
	verifTable[i].live = false
	verifJ(w, " after re-add, late notifications and Remove")
	verifReach("readd-then-stale")
}

// C08: names built from concrete entry names under unusual Add arguments.
func H_names_concrete() {
	verifKReset()
	w := verifNewInotify(0)
	paths := [...]string{".", "rel/d", "/t", "..", "a b", "-x"}
	names := [...]string{"file", ".hidden", "-dash", "sp ace", "ünï", "a.b"}
	p := paths[verifChoose("path", len(paths))]
	n := names[verifChoose("name", len(names))]
	verifK.addResolve = 0
	verifAssert(w.Add(p) == nil, "Add")
	wd := uint32(verifK.nextWd)
	got, ok := verifFeed(w, wd, unix.IN_CREATE, 0, n)
	verifAssert(ok && got.Op == Create, "Create delivered")
	verifAssert(got.Name == p+"/"+n, "entry events are named: the cleaned Add argument, a separator, the entry name - nothing re-cleaned or resolved")
	self, ok2 := verifDeliver(w, wd, unix.IN_ATTRIB, 0)
	verifAssert(ok2 && self.Name == p, "events on the watched path itself carry the cleaned Add argument")
	verifReach("names-concrete")
}

func verifDeliverNamed(w *inotify, wd uint32, mask, cookie uint32, name string) (Event, bool) {
	return verifFeed(w, wd, mask, cookie, name)
}

// C11: API calls between the two halves of a move (on other watches, or on the
// source directory's watch itself) do not make the Create lose its old name.
func H_cookie_ops_between() {
	verifKReset()
	w := verifNewInotify(0)
	verifSetupTable(w, 3) // "/t", "/t/a", "/u/b"
	verifK.nIno = 4
	c := verifU32("cookie")
	verifAssume(c != 0)
	src := verifChoose("src", 3)
	dst := verifChoose("dst", 3)
	ev1, ok1 := verifDeliverNamed(w, verifTable[src].wd, unix.IN_MOVED_FROM, c, "x")
	verifAssert(ok1 && ev1.Op == Rename && ev1.Name == verifTable[src].path+"/x", "first half")
	// something else happens in between
	other := verifChoose("other", 3)
	verifAssume(other != dst)
	switch verifChoose("between", 3) {
	case 0:
		_ = w.Remove(verifTable[other].path)
	case 1:
		_ = w.Add("/new")
	case 2:
		_, _ = verifDeliver(w, verifTable[other].wd, unix.IN_MODIFY, 0)
	}
	ev2, ok2 := verifDeliverNamed(w, verifTable[dst].wd, unix.IN_MOVED_TO, c, "y")
	verifAssert(ok2 && ev2.Op == Create && ev2.Name == verifTable[dst].path+"/y", "second half")
	verifAssert(ev2.renamedFrom == ev1.Name, "the Create of a move identifies the old name whatever API calls happened between its two halves")
	verifReach("cookie-ops-between")
}

// C09: a path added under any spelling, then renamed away: the watch ends.
func H_add_then_moved() {
	verifKReset()
	w := verifNewInotify(0)
	verifK.addResolve = 0
	arg := verifSpellings[verifChoose("spelling", len(verifSpellings))]
	verifAssert(w.Add(arg) == nil, "Add")
	wd := uint32(verifK.nextWd)
	l := w.WatchList()
	verifAssert(len(l) == 1, "one path listed")
	ending := [...]uint32{unix.IN_MOVE_SELF, unix.IN_DELETE_SELF, unix.IN_IGNORED}[verifChoose("ending", 3)]
	if ending != unix.IN_MOVE_SELF {
		verifK.marks[0].state = kDying
	}
	_, ok := verifDeliver(w, wd, ending, 0)
	verifAssert(ok, "reader keeps running")
	verifAssert(len(w.WatchList()) == 0, "a watch ends when its path is renamed away or deleted, whatever spelling it was added under")
	err := w.Remove(arg)
	verifAssert(err != nil && errors.Is(err, ErrNonExistentWatch), "Remove on the ended watch reports ErrNonExistentWatch")
	verifReach("add-then-moved")
}
