package fsnotify

import (
	"errors"
	"path/filepath"

	"golang.org/x/sys/unix"
)

// C17 — kqueue: descriptors are always closed again; only user paths are listed.

// verifBuildFS: a directory /d with up to two entries of symbolic kind, a plain
// file /f and a symlink /l -> /d.
func verifBuildFS() {
	verifAddNode("/d", nDir, "")
	kinds := [...]int{nAbsent, nFile, nDir, nFifo, nSymlink}
	ka := kinds[verifChoose("kind-a", len(kinds))]
	verifAddNode("/d/a", ka, "/f")
	kb := [...]int{nAbsent, nFile}[verifChoose("kind-b", 2)]
	verifAddNode("/d/b", kb, "")
	verifAddNode("/f", nFile, "")
	verifAddNode("/l", nSymlink, "/d")
}

var verifKqArgs = [...]string{"/d", "/f", "/l", "/d/a", "/d/", "/d/./b", "/missing"}

// verifK1: descriptors open (besides kq and the pipe) are exactly those of the wd table.
func verifK1(w *kqueue, when string) {
	n := 0
	for fd, ww := range w.watches.wd {
		n++
		f := verifFdOf(fd)
		verifAssert(f != nil, "K1: table entry whose descriptor is not open"+when)
		verifAssert(ww.wd == fd, "K2: wd-table entry with inconsistent wd"+when)
		pfd, ok := w.watches.path[ww.name]
		verifAssert(ok && pfd == fd, "K2: wd-table entry not reachable through the path table"+when)
		_, inDir := w.watches.byDir[filepath.Dir(ww.name)][fd]
		verifAssert(inDir, "K2: wd-table entry missing from byDir"+when)
	}
	verifAssert(verifOpenCount() == n, "K1: a descriptor is open that no table entry accounts for (leak)"+when)
	verifAssert(verifQ.badClose == 0, "a descriptor was closed twice / a foreign descriptor was closed"+when)
}

func verifKqEmpty(w *kqueue, when string) {
	verifAssert(len(w.watches.wd) == 0 && len(w.watches.byDir) == 0 && len(w.watches.byUser) == 0, "tables must be empty"+when)
	for p, fd := range w.watches.path {
		_ = fd
		verifAssert(p == "", "path table must be empty"+when)
	}
	for p := range w.watches.seen {
		n := verifNodeOf(p)
		// names of unwatchable entries (named pipes) may be remembered; nothing else
		verifAssert(p != "" && n != nil && n.kind == nFifo, "seen set must not keep entries of watches that ended"+when)
	}
	verifAssert(verifOpenCount() == 0, "no descriptor may stay open"+when)
}

func verifKqNew() (*Watcher, *kqueue) {
	wt, err := NewWatcher()
	verifAssert(err == nil && wt != nil, "NewWatcher succeeds")
	return wt, wt.b.(*kqueue)
}

// Add one path, check the accounting, remove it again: nothing may be left.
func H_kq_add_remove() {
	verifQReset()
	verifBuildFS()
	wt, w := verifKqNew()
	arg := verifKqArgs[verifChoose("arg", len(verifKqArgs))]
	if n := verifNodeOf(arg); n != nil && n.kind == nFifo {
		return // Add of a named pipe is accepted but not watched (documented limitation): not a watch
	}
	err := wt.Add(arg)
	verifK1(w, " after Add")
	l := wt.WatchList()
	if err != nil {
		verifAssert(len(l) == 0, "failed Add lists nothing")
		verifKqEmpty(w, " after a failed Add")
		verifReach("kq-add-failed")
	} else {
		verifAssert(len(l) <= 1, "WatchList shows only paths the user added, never the per-entry watches")
		for _, p := range l {
			verifAssert(p == arg || p == filepath.Clean(arg), "WatchList shows the user's path")
		}
		if len(l) == 1 {
			rerr := wt.Remove(arg)
			verifAssert(rerr == nil, "Remove of an added path succeeds")
			verifK1(w, " after Remove")
			verifAssert(len(wt.WatchList()) == 0, "WatchList is empty once everything has been removed")
			verifKqEmpty(w, " once everything has been removed")
			verifReach("kq-add-remove")
		}
	}
	verifAssert(wt.Close() == nil, "Close returns")
	verifQuiesce()
	verifAssert(!verifQ.kqOpen && !verifQ.pipeROpen && !verifQ.pipeWOpen, "Close releases the kqueue and both pipe ends")
	verifAssert(verifGoroutines() == 0, "the reader goroutine exits after Close")
	verifReach("kq-closed")
}

// Close with watches still registered must close every descriptor.
func H_kq_close() {
	verifQReset()
	verifBuildFS()
	wt, w := verifKqNew()
	which := verifChoose("adds", 4)
	if which == 0 || which == 2 {
		verifAssert(wt.Add("/d") == nil, "Add dir")
	}
	if which == 1 || which == 2 {
		verifAssert(wt.Add("/f") == nil, "Add file")
	}
	if which == 3 {
		verifAssert(wt.Add("/l") == nil, "Add symlink to the directory")
	}
	verifK1(w, " before Close")
	verifAssert(verifOpenCount() > 0, "model: something is open")
	if (which == 0 || which == 2) && verifBool("event-pending") {
		// an event is pending and nobody receives it: the reader is parked in its send
		verifRaise("/d", unix.NOTE_ATTRIB)
		verifQuiesce()
		verifReach("kq-close-reader-parked")
	}
	verifAssert(wt.Close() == nil, "Close returns")
	verifQuiesce()
	verifAssert(verifOpenCount() == 0, "Close must close every descriptor the Watcher opened for watched paths and directory entries")
	verifAssert(len(w.watches.wd) == 0, "Close must leave no watch in the descriptor table")
	verifAssert(!verifQ.kqOpen && !verifQ.pipeROpen && !verifQ.pipeWOpen, "Close releases the kqueue and both pipe ends")
	verifAssert(verifQ.badClose == 0, "no descriptor closed twice")
	verifAssert(verifGoroutines() == 0, "the reader goroutine exits after Close")
	verifAssert(wt.WatchList() == nil, "WatchList after Close is nil")
	aerr := wt.Add("/f")
	verifAssert(aerr != nil && errors.Is(aerr, ErrClosed), "Add after Close fails with ErrClosed")
	verifAssert(verifOpenCount() == 0, "Add after Close opens nothing")
	verifReach("kq-close")
}

// A watched path is deleted or renamed: its descriptor is closed when the
// notification is handled; removing the directory's watch closes the entries'.
func H_kq_event_ends_watch() {
	verifQReset()
	verifBuildFS()
	wt, w := verifKqNew()
	verifAssert(wt.Add("/d") == nil, "Add dir")
	verifK1(w, " after Add")
	before := verifOpenCount()
	victim := [...]string{"/d/a", "/d/b", "/d"}[verifChoose("victim", 3)]
	note := [...]uint32{unix.NOTE_DELETE, unix.NOTE_RENAME, unix.NOTE_DELETE | unix.NOTE_WRITE}[verifChoose("note", 3)]
	vf := verifOpenFdFor(victim)
	if vf != nil && vf.fflags&note != 0 {
		// the environment deletes / renames the victim
		n := verifNodeOf(victim)
		kind := n.kind
		n.kind = nAbsent
		if victim == "/d" {
			// rm -r: entries go first
			for _, e := range [...]string{"/d/a", "/d/b"} {
				if en := verifNodeOf(e); en != nil {
					en.kind = nAbsent
					verifRaise(e, unix.NOTE_DELETE)
				}
			}
		}
		verifRaise(victim, note)
		if victim != "/d" {
			verifRaise("/d", unix.NOTE_WRITE)
		}
		for round := 0; round < 6; round++ { // the reader handles the notifications; a consumer takes the events
			verifQuiesce()
			for {
				select {
				case <-wt.Events:
					continue
				default:
				}
				break
			}
		}
		verifAssert(verifOpenFdFor(victim) == nil, "the descriptor of a deleted/renamed path must be closed when its notification is handled")
		verifK1(w, " after the path went away")
		verifAssert(verifOpenCount() < before, "descriptor count went down")
		_ = kind
		verifReach("kq-event-ended")
	}
	// drain events so that the reader is not parked in a send
	for {
		select {
		case <-wt.Events:
			continue
		case <-wt.Errors:
			continue
		default:
		}
		break
	}
	if verifNodeOf("/d") != nil {
		verifAssert(wt.Remove("/d") == nil, "Remove dir")
		verifKqEmpty(w, " after removing the directory watch (its entry watches go with it)")
		verifReach("kq-remove-dir")
	}
	verifAssert(wt.Close() == nil, "Close")
	verifQuiesce()
	verifAssert(verifOpenCount() == 0 && !verifQ.kqOpen && !verifQ.pipeROpen && !verifQ.pipeWOpen, "nothing stays open")
}

// An entry of a watched directory is overwritten by a rename (mv a b): the
// per-entry watches stay internal - WatchList shows only what the user added -
// and removing the directory's watch closes every descriptor.
func H_kq_overwrite() {
	verifQReset()
	verifAddNode("/d", nDir, "")
	verifAddNode("/d/a", nFile, "")
	verifAddNode("/d/b", nFile, "")
	wt, w := verifKqNew()
	verifAssert(wt.Add("/d") == nil, "Add dir")
	verifK1(w, " after Add")
	verifNodeOf2x("/d/a").kind = nAbsent
	verifRaise("/d/a", unix.NOTE_RENAME)
	verifRaise("/d/b", unix.NOTE_DELETE)
	verifRaise("/d", unix.NOTE_WRITE)
	for round := 0; round < 6; round++ {
		verifQuiesce()
		for {
			select {
			case <-wt.Events:
				continue
			default:
			}
			break
		}
	}
	verifK1(w, " after an entry was overwritten by rename")
	l := wt.WatchList()
	verifAssert(len(l) == 1 && l[0] == "/d", "WatchList shows only paths the user added, never the per-entry watches created internally")
	verifAssert(wt.Remove("/d") == nil, "Remove dir")
	verifKqEmpty(w, " after removing the directory watch")
	verifAssert(len(wt.WatchList()) == 0, "nothing listed after everything was removed")
	verifAssert(wt.Close() == nil, "Close")
	verifQuiesce()
	verifAssert(verifOpenCount() == 0 && !verifQ.kqOpen, "nothing stays open")
	verifReach("kq-overwrite")
}

func verifNodeOf2x(path string) *verifNode {
	for i := 0; i < verifQ.nnodes; i++ {
		if verifQ.nodes[i].path == path {
			return &verifQ.nodes[i]
		}
	}
	return nil
}

// H_kq_fd_history: STEPS operations out of {Add, Remove, a change inside the
// watched directory with its notifications delivered}; after every step the
// descriptor accounting K1/K2 holds and WatchList shows only user-added paths;
// finally everything is removed and nothing is left.
func H_kq_fd_history() {
	verifQReset()
	verifAddNode("/d", nDir, "")
	var m [3]verifEntModel
	for i, name := range verifEntNames {
		k := [...]int{nAbsent, nFile}[verifChoose("init", 2)]
		if i == 2 {
			k = nAbsent
		}
		verifAddNode(name, k, "")
		m[i] = verifEntModel{kind: k, known: k != nAbsent}
	}
	verifAddNode("/f", nFile, "")
	wt, w := verifKqNew()
	args := [...]string{"/d", "/f", "/d/a"}
	var added [3]bool
	steps := verifParam("STEPS")
	for s := 0; s < steps; s++ {
		switch verifChoose("step", 3) {
		case 0:
			i := verifChoose("add", len(args))
			if n := verifNodeOf(args[i]); n != nil && n.kind == nFifo {
				continue // Add of a named pipe is accepted but not watched (documented limitation)
			}
			if wt.Add(args[i]) == nil {
				added[i] = true
			}
		case 1:
			i := verifChoose("remove", len(args))
			err := wt.Remove(args[i])
			if added[i] && verifNodeOf(args[i]) != nil {
				verifAssert(err == nil, "Remove of an added, existing path succeeds")
			}
			if err == nil {
				added[i] = false
			}
		case 2:
			if added[0] {
				_ = verifDirOp(&m, "/d")
				verifCollect(wt, nil)
				// a watched entry that was deleted/renamed away is no longer a user watch
				if verifNodeOf("/d/a") == nil {
					added[2] = false
				}
			}
		}
		verifK1(w, " after a history step")
		l := wt.WatchList()
		for _, p := range l {
			ok := false
			for i, a := range args {
				ok = ok || (p == a && added[i])
			}
			verifAssert(ok, "WatchList shows a path the user did not add (or that was removed)")
		}
		for i, a := range args {
			if added[i] && verifNodeOf(a) != nil {
				verifAssert(verifInList(l, a), "a path the user added (and did not remove) is missing from WatchList: removing a directory's watch must not take the user's own watches inside it along")
			}
		}
	}
	for i, a := range args {
		if added[i] {
			err := wt.Remove(a)
			verifAssert(err == nil || verifNodeOf(a) == nil, "Remove of a path the user added succeeds, whatever was removed before")
		}
	}
	verifK1(w, " after removing everything")
	verifAssert(len(wt.WatchList()) == 0, "WatchList is empty once everything has been removed")
	verifAssert(verifOpenCount() == 0, "no descriptor stays open once everything has been removed")
	verifAssert(wt.Close() == nil, "Close")
	verifQuiesce()
	verifAssert(!verifQ.kqOpen && !verifQ.pipeROpen && !verifQ.pipeWOpen && verifQ.badClose == 0, "Close releases the kqueue and the pipe, nothing closed twice")
	verifReach("kq-fd-history")
}

// The same path added again under another spelling is the same watch: no second
// descriptor, one WatchList entry, and one Remove (under any spelling) ends it.
func H_kq_readd_spelling() {
	verifQReset()
	verifAddNode("/d", nDir, "")
	verifAddNode("/d/a", [...]int{nAbsent, nFile}[verifChoose("kind-a", 2)], "")
	verifAddNode("/f", nFile, "")
	wt, w := verifKqNew()
	dirs := [...]string{"/d", "/d/", "/d/.", "//d", "/d/a/.."}
	files := [...]string{"/f", "//f", "/./f", "/d/../f"}
	var s1, s2, s3 string
	if verifBool("file") {
		s1, s2, s3 = files[verifChoose("s1", len(files))], files[verifChoose("s2", len(files))], files[verifChoose("s3", len(files))]
	} else {
		s1, s2, s3 = dirs[verifChoose("s1", len(dirs))], dirs[verifChoose("s2", len(dirs))], dirs[verifChoose("s3", len(dirs))]
	}
	verifAssert(wt.Add(s1) == nil, "Add succeeds")
	verifK1(w, " after Add")
	n1 := verifOpenCount()
	verifAssert(wt.Add(s2) == nil, "Add of a watched path under another spelling succeeds")
	verifK1(w, " after adding a watched path again under another spelling")
	verifAssert(verifOpenCount() == n1, "adding a watched path again (under any spelling) must not open another descriptor")
	l := wt.WatchList()
	verifAssert(len(l) == 1 && l[0] == filepath.Clean(s1), "WatchList shows the path once, under its cleaned spelling")
	verifAssert(wt.Remove(s3) == nil, "Remove under any spelling of the added path succeeds")
	verifK1(w, " after Remove")
	verifAssert(len(wt.WatchList()) == 0, "WatchList is empty once everything has been removed")
	verifKqEmpty(w, " once everything has been removed")
	verifAssert(wt.Close() == nil, "Close returns")
	verifQuiesce()
	verifAssert(verifOpenCount() == 0 && !verifQ.kqOpen && !verifQ.pipeROpen && !verifQ.pipeWOpen && verifQ.badClose == 0, "nothing stays open, nothing closed twice")
	verifReach("kq-readd-spelling")
}

// A path the user added inside a watched directory goes away (its watch ends with
// the notification) and an entry of the same name appears again: that one is a
// per-entry watch created internally - not listed - and goes with the directory's.
func H_kq_user_entry_gone() {
	verifQReset()
	verifAddNode("/d", nDir, "")
	verifAddNode("/d/a", nFile, "")
	verifAddNode("/d/c", nAbsent, "")
	wt, w := verifKqNew()
	if verifBool("dir-first") {
		verifAssert(wt.Add("/d") == nil, "Add dir")
		verifAssert(wt.Add("/d/a") == nil, "Add entry")
	} else {
		verifAssert(wt.Add("/d/a") == nil, "Add entry")
		verifAssert(wt.Add("/d") == nil, "Add dir")
	}
	verifK1(w, " after Add")
	verifAssert(len(wt.WatchList()) == 2, "both user paths are listed")
	renamed := verifBool("renamed")
	verifNodeOf2("/d/a").kind = nAbsent
	if renamed {
		verifNodeOf2("/d/c").kind = nFile
		verifRaise("/d/a", unix.NOTE_RENAME)
	} else {
		verifRaise("/d/a", unix.NOTE_DELETE)
	}
	verifRaise("/d", unix.NOTE_WRITE)
	verifCollect(wt, nil)
	verifK1(w, " after the user-added entry went away")
	l := wt.WatchList()
	verifAssert(len(l) == 1 && l[0] == "/d", "a path whose watch ended with its deletion/rename is no longer listed")
	if verifBool("recreated") {
		verifNodeOf2("/d/a").kind = nFile
		verifRaise("/d", unix.NOTE_WRITE)
		verifCollect(wt, nil)
		verifK1(w, " after an entry of the same name appeared again")
		l = wt.WatchList()
		verifAssert(len(l) == 1 && l[0] == "/d", "WatchList shows only paths the user added, never the per-entry watches created internally")
		verifReach("kq-user-entry-recreated")
	}
	verifAssert(wt.Remove("/d") == nil, "Remove dir")
	verifK1(w, " after Remove")
	verifAssert(len(wt.WatchList()) == 0, "WatchList is empty once everything has been removed")
	verifKqEmpty(w, " after removing the directory watch (its entry watches go with it)")
	verifAssert(wt.Close() == nil, "Close")
	verifQuiesce()
	verifAssert(verifOpenCount() == 0 && !verifQ.kqOpen && verifQ.badClose == 0, "nothing stays open")
	verifReach("kq-user-entry-gone")
}

// A directory added by its own name and through a symbolic link (absolute or
// relative target) is one watch: no second descriptor, and its entries' changes
// are reported once, under the name added first.
func H_kq_link_and_target() {
	verifQReset()
	verifAddNode("/d", nDir, "")
	verifAddNode("/d/a", nFile, "")
	target := [...]string{"/d", "d", "./d", "../d"}[verifChoose("target", 4)]
	verifAddNode("/l", nSymlink, target)
	wt, w := verifKqNew()
	linkFirst := verifChoose("order", 2) == 1 // forked, not merged: the names are passed to filepath.Clean
	first, second := "/d", "/l"
	if linkFirst {
		first, second = "/l", "/d"
	}
	verifAssert(wt.Add(first) == nil, "Add")
	verifK1(w, " after Add")
	n1 := verifOpenCount()
	verifAssert(wt.Add(second) == nil, "Add of the same directory under its other name")
	verifK1(w, " after adding the same directory under its other name")
	verifAssert(verifOpenCount() == n1, "a directory added by name and through a symlink is watched once: no further descriptor")
	verifExpect(verifCollect(wt, nil), nil, "entries that existed are never reported as Create")
	verifRaise("/d/a", unix.NOTE_WRITE)
	verifExpect(verifCollect(wt, nil), []verifKqExp{{first + "/a", Write}}, "a change is reported once, under the name added first")
	verifAssert(wt.Close() == nil, "Close returns")
	verifQuiesce()
	verifAssert(verifOpenCount() == 0 && !verifQ.kqOpen && !verifQ.pipeROpen && !verifQ.pipeWOpen && verifQ.badClose == 0, "Close closes every descriptor, none twice")
	verifReach("kq-link-and-target")
}

func verifInList(l []string, p string) bool {
	for _, x := range l {
		if x == p {
			return true
		}
	}
	return false
}

// The n-th vnode registration (kevent EV_ADD) fails - ENOMEM, or a file system
// that does not support EVFILT_VNODE: whatever Add reports, every descriptor it
// opened is either accounted for in the tables or closed again.
func H_kq_register_fails() {
	verifQReset()
	verifAddNode("/d", nDir, "")
	verifAddNode("/d/a", nFile, "")
	verifAddNode("/d/b", [...]int{nAbsent, nFile}[verifChoose("kind-b", 2)], "")
	verifAddNode("/f", nFile, "")
	wt, w := verifKqNew()
	if verifBool("watched-before") {
		verifAssert(wt.Add("/f") == nil, "Add file")
	}
	verifQ.regFail = verifQ.regCount + 1 + verifChoose("failing-registration", 3)
	arg := [...]string{"/d", "/f", "/d/a"}[verifChoose("arg", 3)]
	err := wt.Add(arg)
	verifK1(w, " after an Add during which a kevent registration failed")
	if err != nil {
		verifReach("kq-register-failed")
	}
	for _, p := range wt.WatchList() {
		_ = wt.Remove(p)
	}
	verifK1(w, " after removing what is listed")
	verifAssert(wt.Close() == nil, "Close returns")
	verifQuiesce()
	verifAssert(verifOpenCount() == 0 && !verifQ.kqOpen && !verifQ.pipeROpen && !verifQ.pipeWOpen && verifQ.badClose == 0, "nothing stays open, nothing closed twice")
	verifReach("kq-register-fails")
}
