package fsnotify

// Simulated kqueue, descriptor table and a tiny file system for the kqueue
// backend (C17, C18). The real backend_kqueue.go is executed from source
// (GOOS=freebsd); its system calls are redirected here.

import (
	"io/fs"
	"os"
	"path/filepath"
	"time"

	"golang.org/x/sys/unix"
)

const (
	nAbsent  = 0
	nFile    = 1
	nDir     = 2
	nFifo    = 3
	nSymlink = 4

	verifKqFd    = 99
	verifPipeR   = 100
	verifPipeW   = 101
	verifMaxFds  = 24
	verifMaxNode = 8
)

type verifNode struct {
	path   string
	kind   int
	target string // symlink target
	noperm bool   // open(2) fails with EACCES
}

type verifFd struct {
	fd     int
	path   string
	open   bool
	reg    bool   // registered with the kqueue
	fflags uint32 // notes subscribed
}

type verifKev struct {
	fd     int
	fflags uint32
}

type verifKq struct {
	nodes      [verifMaxNode]verifNode
	nnodes     int
	fds        [verifMaxFds]verifFd
	nfds       int
	nextFd     int
	queue      [8]verifKev
	qlen       int
	wake       chan struct{}
	kqOpen     bool
	pipeROpen  bool
	pipeWOpen  bool
	badClose   int // close of a descriptor that is not open
	kqFail     bool
	regFail    int // fail the n-th vnode registration (1-based), 0 = never
	regCount   int
	opens      int
	closes     int
	readerDone bool
}

var verifQ verifKq

func verifQReset() {
	verifQ = verifKq{nextFd: 10, wake: make(chan struct{}, 32)}
}

func verifAddNode(path string, kind int, target string) {
	verifQ.nodes[verifQ.nnodes] = verifNode{path: path, kind: kind, target: target}
	verifQ.nnodes++
}

// verifResolve follows a symlinked leading directory component (/l/x -> /d/x).
func verifResolve(path string) string {
	path = filepath.Clean(path) // the kernel does not care about ./ and // (the model has no .. through symlinks)
	for i := 0; i < verifQ.nnodes; i++ {
		n := &verifQ.nodes[i]
		if n.kind == nSymlink && len(path) > len(n.path) && path[:len(n.path)] == n.path && path[len(n.path)] == '/' {
			return verifTargetOf(n) + path[len(n.path):]
		}
	}
	return path
}

// verifTargetOf: where a symlink points, relative targets taken from the link's directory.
func verifTargetOf(n *verifNode) string {
	if filepath.IsAbs(n.target) {
		return filepath.Clean(n.target)
	}
	return filepath.Join(filepath.Dir(n.path), n.target)
}

func verifNodeOf(path string) *verifNode {
	path = verifResolve(path)
	for i := 0; i < verifQ.nnodes; i++ {
		n := &verifQ.nodes[i]
		if n.path == path && n.kind != nAbsent {
			return n
		}
	}
	return nil
}

func verifFdOf(fd int) *verifFd {
	for i := 0; i < verifQ.nfds; i++ {
		if verifQ.fds[i].fd == fd && verifQ.fds[i].open {
			return &verifQ.fds[i]
		}
	}
	return nil
}

// verifOpenFdFor: the open descriptor watching path, if any.
func verifOpenFdFor(path string) *verifFd {
	path = verifResolve(path)
	for i := 0; i < verifQ.nfds; i++ {
		if verifQ.fds[i].open && verifQ.fds[i].path == path {
			return &verifQ.fds[i]
		}
	}
	return nil
}

func verifOpenCount() int {
	n := 0
	for i := 0; i < verifQ.nfds; i++ {
		if verifQ.fds[i].open {
			n++
		}
	}
	return n
}

// ---- syscall stubs ----

func verifKqueue() (int, error) {
	if verifQ.kqFail {
		return -1, unix.EMFILE
	}
	verifQ.kqOpen = true
	return verifKqFd, nil
}

func verifPipe(p []int) error {
	p[0], p[1] = verifPipeR, verifPipeW
	verifQ.pipeROpen, verifQ.pipeWOpen = true, true
	return nil
}

func verifCloseOnExec(fd int) {}

func verifSetKevent(k *unix.Kevent_t, fd, mode, flags int) {
	k.Ident = uint64(fd)
	k.Filter = int16(mode)
	k.Flags = uint16(flags)
}

func verifOpen(path string, mode int, perm uint32) (int, error) {
	n := verifNodeOf(path)
	if n == nil {
		return -1, unix.ENOENT
	}
	if n.noperm {
		return -1, unix.EACCES
	}
	q := &verifQ
	verifAssume(q.nfds < verifMaxFds) // model bound
	fd := q.nextFd
	q.nextFd++
	q.fds[q.nfds] = verifFd{fd: fd, path: verifResolve(path), open: true}
	q.nfds++
	q.opens++
	return fd, nil
}

func verifClose(fd int) error {
	q := &verifQ
	q.closes++
	switch fd {
	case verifKqFd:
		if !q.kqOpen {
			q.badClose++
			return unix.EBADF
		}
		q.kqOpen = false
		return nil
	case verifPipeR:
		if !q.pipeROpen {
			q.badClose++
			return unix.EBADF
		}
		q.pipeROpen = false
		return nil
	case verifPipeW:
		if !q.pipeWOpen {
			q.badClose++
			return unix.EBADF
		}
		q.pipeWOpen = false
		select {
		case q.wake <- struct{}{}:
		default:
		}
		return nil
	}
	f := verifFdOf(fd)
	if f == nil {
		q.badClose++
		return unix.EBADF
	}
	f.open = false
	f.reg = false // closing a descriptor drops its knotes
	return nil
}

func verifKevent(kq int, changes, events []unix.Kevent_t, timeout *unix.Timespec) (int, error) {
	q := &verifQ
	if kq != verifKqFd || !q.kqOpen {
		return -1, unix.EBADF
	}
	for i := range changes {
		c := &changes[i]
		if c.Filter == unix.EVFILT_READ {
			continue // the close pipe
		}
		f := verifFdOf(int(c.Ident))
		if f == nil {
			return -1, unix.EBADF
		}
		if c.Flags&unix.EV_DELETE != 0 {
			if !f.reg {
				return -1, unix.ENOENT
			}
			f.reg = false
			continue
		}
		q.regCount++
		if q.regFail != 0 && q.regCount == q.regFail {
			return -1, unix.ENOMEM
		}
		f.reg = true
		f.fflags = c.Fflags
	}
	if len(events) == 0 {
		return 0, nil
	}
	for {
		n := 0
		for n < len(events) && q.qlen > 0 {
			e := q.queue[0]
			copy(q.queue[:], q.queue[1:q.qlen])
			q.qlen--
			f := verifFdOf(e.fd)
			if f == nil || !f.reg {
				continue // knote gone with its descriptor
			}
			events[n] = unix.Kevent_t{Ident: uint64(e.fd), Filter: unix.EVFILT_VNODE, Fflags: e.fflags & f.fflags}
			if events[n].Fflags == 0 {
				continue
			}
			n++
		}
		if n > 0 {
			return n, nil
		}
		if !q.pipeWOpen {
			events[0] = unix.Kevent_t{Ident: verifPipeR, Filter: unix.EVFILT_READ}
			return 1, nil
		}
		<-q.wake
	}
}

// verifRaise queues a vnode note on the descriptor watching path (if any).
func verifRaise(path string, fflags uint32) {
	q := &verifQ
	f := verifOpenFdFor(path)
	if f == nil || !f.reg {
		return
	}
	q.queue[q.qlen] = verifKev{fd: f.fd, fflags: fflags}
	q.qlen++
	select {
	case q.wake <- struct{}{}:
	default:
	}
}

// ---- file system stubs ----

type verifFI struct{ n verifNode }

func (f verifFI) Name() string       { return filepath.Base(f.n.path) }
func (f verifFI) Size() int64        { return 0 }
func (f verifFI) ModTime() time.Time { return time.Time{} }
func (f verifFI) IsDir() bool        { return f.n.kind == nDir }
func (f verifFI) Sys() interface{}   { return nil }
func (f verifFI) Mode() fs.FileMode {
	switch f.n.kind {
	case nDir:
		return fs.ModeDir | 0o755
	case nFifo:
		return fs.ModeNamedPipe | 0o644
	case nSymlink:
		return fs.ModeSymlink | 0o777
	}
	return 0o644
}

type verifDE struct{ n verifNode }

func (d verifDE) Name() string               { return filepath.Base(d.n.path) }
func (d verifDE) IsDir() bool                { return d.n.kind == nDir }
func (d verifDE) Type() fs.FileMode          { return verifFI{d.n}.Mode().Type() }
func (d verifDE) Info() (fs.FileInfo, error) { return verifFI{d.n}, nil }

func verifLstat(name string) (os.FileInfo, error) {
	n := verifNodeOf(name)
	if n == nil {
		return nil, unix.ENOENT
	}
	return verifFI{*n}, nil
}

func verifReadDir(dir string) ([]os.DirEntry, error) {
	d := verifNodeOf(dir)
	if d == nil {
		return nil, unix.ENOENT
	}
	if d.kind == nSymlink {
		d = verifNodeOf(verifTargetOf(d))
		if d == nil {
			return nil, unix.ENOENT
		}
	}
	if d.kind != nDir {
		return nil, unix.ENOTDIR
	}
	var out []os.DirEntry
	for i := 0; i < verifQ.nnodes; i++ {
		n := verifQ.nodes[i]
		if n.kind != nAbsent && filepath.Dir(n.path) == d.path && n.path != d.path {
			out = append(out, verifDE{n})
		}
	}
	return out, nil
}

func verifReadlink(name string) (string, error) {
	n := verifNodeOf(name)
	if n == nil {
		return "", unix.ENOENT
	}
	if n.kind != nSymlink {
		return "", unix.EINVAL
	}
	return n.target, nil
}
