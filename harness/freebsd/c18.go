package fsnotify

import (
	"path/filepath"

	"golang.org/x/sys/unix"
)

// C18 — kqueue: a watched directory reports each new entry once, then its changes.

type verifKqExp struct {
	name string
	op   Op
}

// verifCollect lets the reader run and drains Events until nothing more arrives.
func verifCollect(wt *Watcher, out []Event) []Event {
	for round := 0; round < 8; round++ {
		verifQuiesce()
		got := false
		for {
			select {
			case ev := <-wt.Events:
				out = append(out, ev)
				got = true
				continue
			case err := <-wt.Errors:
				_ = err
				verifFail("unexpected value on Errors")
			default:
			}
			break
		}
		if !got {
			break
		}
	}
	return out
}

func verifExpect(got []Event, want []verifKqExp, what string) {
	verifAssert(len(got) == len(want), "number of events differs from what the history warrants: "+what)
	for i := range want {
		if i < len(got) {
			verifAssert(got[i].Name == want[i].name && got[i].Op == want[i].op, "event differs (name, op or order): "+what)
		}
	}
}

func H_kq_dirstep() {
	verifQReset()
	verifAddNode("/d", nDir, "")
	ka := [...]int{nAbsent, nFile, nDir, nFifo}[verifChoose("kind-a", 4)]
	verifAddNode("/d/a", ka, "")
	kb := [...]int{nAbsent, nFile}[verifChoose("kind-b", 2)]
	verifAddNode("/d/b", kb, "")
	verifAddNode("/l", nSymlink, "/d")
	verifAddNode("/d/c", nAbsent, "")
	wt, _ := verifKqNew()
	base := [...]string{"/d", "/l"}[verifChoose("spelling", 2)]
	verifAssert(wt.Add(base) == nil, "Add dir")
	var got []Event
	got = verifCollect(wt, got)
	verifExpect(got, nil, "entries that existed when the watch was added are never reported as Create")
	aWatched := ka == nFile || ka == nDir
	op := verifChoose("op", 11)
	var want []verifKqExp
	switch op {
	case 0: // create a new entry
		kc := [...]int{nFile, nDir, nFifo}[verifChoose("kind-c", 3)]
		verifNodeOf2("/d/c").kind = kc
		verifRaise("/d", unix.NOTE_WRITE)
		want = append(want, verifKqExp{base + "/c", Create})
		verifReach("kq-dir-create")
	case 1: // remove a watched entry
		verifAssume(aWatched)
		verifNodeOf2("/d/a").kind = nAbsent
		verifRaise("/d/a", unix.NOTE_DELETE)
		verifRaise("/d", unix.NOTE_WRITE)
		want = append(want, verifKqExp{base + "/a", Remove})
		verifReach("kq-dir-remove")
	case 2: // rename an entry within the directory
		verifAssume(aWatched)
		verifNodeOf2("/d/c").kind = ka
		verifNodeOf2("/d/a").kind = nAbsent
		verifRaise("/d/a", unix.NOTE_RENAME)
		verifRaise("/d", unix.NOTE_WRITE)
		want = append(want, verifKqExp{base + "/a", Rename}, verifKqExp{base + "/c", Create})
		verifReach("kq-dir-rename")
	case 3: // write to an entry
		verifAssume(ka == nFile)
		verifRaise("/d/a", unix.NOTE_WRITE)
		want = append(want, verifKqExp{base + "/a", Write})
		verifReach("kq-dir-write")
	case 4: // chmod
		verifAssume(ka == nFile)
		verifRaise("/d/a", unix.NOTE_ATTRIB)
		want = append(want, verifKqExp{base + "/a", Chmod})
		verifReach("kq-dir-chmod")
	case 5: // remove and re-create the same name before the notification is handled
		verifAssume(ka == nFile)
		verifRaise("/d/a", unix.NOTE_DELETE)
		verifRaise("/d", unix.NOTE_WRITE)
		want = append(want, verifKqExp{base + "/a", Remove}, verifKqExp{base + "/a", Create})
		verifReach("kq-dir-recreate")
	case 7: // overwrite by rename: mv a b with b existing
		verifAssume(ka == nFile && kb == nFile)
		verifNodeOf2("/d/a").kind = nAbsent
		verifRaise("/d/a", unix.NOTE_RENAME)
		verifRaise("/d/b", unix.NOTE_DELETE) // the old b is unlinked; the name b now holds the former a
		verifRaise("/d", unix.NOTE_WRITE)
		want = append(want, verifKqExp{base + "/a", Rename}, verifKqExp{base + "/b", Remove}, verifKqExp{base + "/b", Create})
		verifReach("kq-dir-overwrite")
	case 8: // an entry is removed, then a different new entry appears, in one batch
		verifAssume(ka == nFile)
		verifNodeOf2("/d/a").kind = nAbsent
		verifNodeOf2("/d/c").kind = nFile
		verifRaise("/d/a", unix.NOTE_DELETE)
		verifRaise("/d", unix.NOTE_WRITE)
		want = append(want, verifKqExp{base + "/a", Remove}, verifKqExp{base + "/c", Create})
		verifReach("kq-dir-remove-create-other")
	case 9: // a new entry and then a change of another entry, in one batch: order is kept
		verifAssume(ka == nFile)
		verifNodeOf2("/d/c").kind = nFile
		verifRaise("/d", unix.NOTE_WRITE)
		verifRaise("/d/a", unix.NOTE_ATTRIB)
		want = append(want, verifKqExp{base + "/c", Create}, verifKqExp{base + "/a", Chmod})
		verifReach("kq-dir-create-then-chmod")
	case 10: // written, then renamed, before the reader drains: one kevent carries both notes
		verifAssume(ka == nFile)
		verifNodeOf2("/d/c").kind = nFile
		verifNodeOf2("/d/a").kind = nAbsent
		verifRaise("/d/a", unix.NOTE_WRITE|unix.NOTE_RENAME)
		verifRaise("/d", unix.NOTE_WRITE)
		want = append(want, verifKqExp{base + "/a", Write | Rename}, verifKqExp{base + "/c", Create})
		verifReach("kq-dir-write-rename-coalesced")
	case 6: // the directory changes but no entry is new (e.g. an unwatched entry went away)
		verifRaise("/d", unix.NOTE_WRITE)
		verifReach("kq-dir-touch")
	}
	got = verifCollect(wt, nil)
	verifExpect(got, want, "first operation")
	// the directory changes again later: nothing already reported is reported again
	verifRaise("/d", unix.NOTE_WRITE)
	got = verifCollect(wt, nil)
	verifExpect(got, nil, "a later directory change must not report Create again for entries already known")
	// changes of a newly reported file are reported afterwards
	if op == 0 && verifNodeOf2("/d/c").kind == nFile {
		verifRaise("/d/c", unix.NOTE_WRITE)
		got = verifCollect(wt, nil)
		verifExpect(got, []verifKqExp{{base + "/c", Write}}, "changes of a new entry are reported after its Create")
	}
	verifAssert(wt.Close() == nil, "Close")
	verifReach("kq-dirstep")
}

// verifNodeOf2 returns the node slot even when the entry is currently absent.
func verifNodeOf2(path string) *verifNode {
	for i := 0; i < verifQ.nnodes; i++ {
		if verifQ.nodes[i].path == path {
			return &verifQ.nodes[i]
		}
	}
	return nil
}

// Removing a watched directory yields Remove for it and for each watched entry.
func H_kq_rmdir() {
	verifQReset()
	verifAddNode("/d", nDir, "")
	ka := [...]int{nAbsent, nFile}[verifChoose("kind-a", 2)]
	verifAddNode("/d/a", ka, "")
	kb := [...]int{nAbsent, nFile}[verifChoose("kind-b", 2)]
	verifAddNode("/d/b", kb, "")
	wt, _ := verifKqNew()
	verifAssert(wt.Add("/d") == nil, "Add dir")
	var want []verifKqExp
	dirFirst := verifBool("dir-note-first") // kqueue may deliver the directory's note before its entries'
	if dirFirst {
		verifNodeOf2("/d").kind = nAbsent
		verifRaise("/d", unix.NOTE_DELETE|unix.NOTE_WRITE)
		want = append(want, verifKqExp{"/d", Remove})
	}
	for _, e := range [...]string{"/d/a", "/d/b"} {
		if n := verifNodeOf2(e); n != nil && n.kind != nAbsent {
			n.kind = nAbsent
			verifRaise(e, unix.NOTE_DELETE)
			want = append(want, verifKqExp{e, Remove})
		}
	}
	if !dirFirst {
		verifNodeOf2("/d").kind = nAbsent
		verifRaise("/d", unix.NOTE_DELETE|unix.NOTE_WRITE)
		want = append(want, verifKqExp{"/d", Remove})
	}
	got := verifCollect(wt, nil)
	verifExpect(got, want, "rm -r of a watched directory: Remove for each watched entry and for the directory")
	verifAssert(len(wt.WatchList()) == 0, "the removed directory is no longer listed")
	verifAssert(wt.Close() == nil, "Close")
	verifReach("kq-rmdir")
}

// Nested watches added parent first: the sub-directory was picked up internally
// (delete/rename notes only) and is then added by the user; its existing
// entries are not new, and their changes are reported.
func H_kq_nested() {
	verifQReset()
	verifAddNode("/d", nDir, "")
	verifAddNode("/d/a", nDir, "")
	verifAddNode("/d/a/x", nFile, "")
	verifAddNode("/d/a/y", nAbsent, "")
	verifAddNode("/d/a/p", [...]int{nAbsent, nFifo}[verifChoose("kind-p", 2)], "") // seen, but not watchable
	wt, _ := verifKqNew()
	first := verifChoose("order", 2)
	if first == 0 {
		verifAssert(wt.Add("/d") == nil, "Add parent")
		verifAssert(wt.Add("/d/a") == nil, "Add child")
	} else {
		verifAssert(wt.Add("/d/a") == nil, "Add child")
		verifAssert(wt.Add("/d") == nil, "Add parent")
	}
	got := verifCollect(wt, nil)
	verifExpect(got, nil, "entries that existed when the watches were added are never reported as Create")
	verifRaise("/d/a/x", unix.NOTE_WRITE)
	got = verifCollect(wt, nil)
	verifExpect(got, []verifKqExp{{"/d/a/x", Write}}, "changes of an entry of the user-added sub-directory are reported")
	verifNodeOf2("/d/a/y").kind = nFile
	verifRaise("/d/a", unix.NOTE_WRITE)
	got = verifCollect(wt, nil)
	verifExpect(got, []verifKqExp{{"/d/a/y", Create}}, "a new entry of the sub-directory is reported once; existing ones are not reported as new")
	// the parent changes later (twice): the sub-directory existed when the parent was added
	for i := 0; i < 2; i++ {
		verifRaise("/d", unix.NOTE_WRITE)
		got = verifCollect(wt, nil)
		verifExpect(got, nil, "an entry that existed (and was already watched) when its directory was added is never reported as Create")
	}
	// ... and then the sub-directory changes again: what it reported, or held when added, stays known
	verifRaise("/d/a", unix.NOTE_WRITE)
	got = verifCollect(wt, nil)
	verifExpect(got, nil, "a change of the outer directory must not make the inner directory report its entries again")
	verifAssert(wt.Close() == nil, "Close")
	verifReach("kq-nested")
}

// A file watched by the user before its directory is: it existed when the
// directory's watch was added, so no Create - not on any later directory change.
func H_kq_entry_first() {
	verifQReset()
	verifAddNode("/d", nDir, "")
	verifAddNode("/d/a", nFile, "")
	verifAddNode("/d/c", nAbsent, "")
	wt, _ := verifKqNew()
	verifAssert(wt.Add("/d/a") == nil, "Add entry")
	verifAssert(wt.Add("/d") == nil, "Add its directory")
	verifExpect(verifCollect(wt, nil), nil, "entries that existed when the watches were added are never reported as Create")
	verifNodeOf2("/d/c").kind = nFile
	verifRaise("/d", unix.NOTE_WRITE)
	verifExpect(verifCollect(wt, nil), []verifKqExp{{"/d/c", Create}}, "only the new entry is reported")
	verifRaise("/d", unix.NOTE_WRITE)
	verifExpect(verifCollect(wt, nil), nil, "a later directory change reports nothing again")
	verifRaise("/d/a", unix.NOTE_WRITE)
	verifExpect(verifCollect(wt, nil), []verifKqExp{{"/d/a", Write}}, "a change of the user-added entry is reported once (one watch, not two)")
	verifAssert(wt.Close() == nil, "Close")
	verifReach("kq-entry-first")
}

// The watched directory is "." or the root: entry names are formed by joining,
// so they agree between the initial listing, later listings and the events.
func H_kq_dot_root() {
	verifQReset()
	var base string
	var spell []string
	if verifBool("root") {
		base, spell = "/", []string{"/", "//", "/."}
	} else {
		base, spell = ".", []string{".", "./", "x/.."}
	}
	verifAddNode(base, nDir, "")
	a, c := filepath.Join(base, "a"), filepath.Join(base, "c")
	verifAddNode(a, [...]int{nFile, nFifo}[verifChoose("kind-a", 2)], "")
	verifAddNode(c, nAbsent, "")
	wt, _ := verifKqNew()
	verifAssert(wt.Add(spell[verifChoose("spelling", 3)]) == nil, "Add dir")
	verifExpect(verifCollect(wt, nil), nil, "entries that existed when the watch was added are never reported as Create")
	verifNodeOf2(c).kind = nFile
	verifRaise(base, unix.NOTE_WRITE)
	verifExpect(verifCollect(wt, nil), []verifKqExp{{c, Create}}, "a new entry of a directory watched as . or / is reported once, existing ones not at all")
	verifRaise(base, unix.NOTE_WRITE)
	verifExpect(verifCollect(wt, nil), nil, "a later directory change reports nothing again")
	verifRaise(c, unix.NOTE_WRITE)
	verifExpect(verifCollect(wt, nil), []verifKqExp{{c, Write}}, "changes of the new entry are reported under the same name as its Create")
	verifAssert(wt.Close() == nil, "Close")
	verifReach("kq-dot-root")
}

// ---- multi-step histories against a small reference model ----

type verifEntModel struct {
	kind  int  // nAbsent, nFile, nDir, nFifo
	known bool // existed at Add time or already reported
}

var verifEntNames = [...]string{"/d/a", "/d/b", "/d/c"}

// verifDirOp applies one environment operation to the file system and the
// reference model, raises the vnode notes FreeBSD raises for it, and returns
// the events the property demands for it.
func verifDirOp(m *[3]verifEntModel, base string) []verifKqExp {
	var want []verifKqExp
	i := verifChoose("entry", 3)
	name := verifEntNames[i]
	spelled := base + name[2:]
	e := &m[i]
	watched := e.kind == nFile || e.kind == nDir
	switch verifChoose("dirop", 5) {
	case 0: // create
		verifAssume(e.kind == nAbsent)
		k := [...]int{nFile, nDir, nFifo}[verifChoose("newkind", 3)]
		e.kind = k
		verifNodeOf2(name).kind = k
		verifRaise("/d", unix.NOTE_WRITE)
		want = append(want, verifKqExp{spelled, Create})
		e.known = true
	case 1: // remove
		verifAssume(e.kind != nAbsent)
		verifNodeOf2(name).kind = nAbsent
		if watched {
			verifRaise(name, unix.NOTE_DELETE)
			want = append(want, verifKqExp{spelled, Remove})
		}
		verifRaise("/d", unix.NOTE_WRITE)
		e.kind = nAbsent
		e.known = false
	case 2: // write
		verifAssume(e.kind == nFile)
		verifRaise(name, unix.NOTE_WRITE)
		want = append(want, verifKqExp{spelled, Write})
	case 3: // chmod (of a file: sub-directories are only subscribed for delete/rename)
		verifAssume(e.kind == nFile)
		verifRaise(name, unix.NOTE_ATTRIB)
		want = append(want, verifKqExp{spelled, Chmod})
	case 4: // rename to another (absent) name in the directory
		j := (i + 1 + verifChoose("to", 2)) % 3
		t := &m[j]
		verifAssume(watched && t.kind == nAbsent)
		t.kind, t.known = e.kind, true
		verifNodeOf2(verifEntNames[j]).kind = e.kind
		verifNodeOf2(name).kind = nAbsent
		e.kind, e.known = nAbsent, false
		verifRaise(name, unix.NOTE_RENAME)
		verifRaise("/d", unix.NOTE_WRITE)
		want = append(want, verifKqExp{spelled, Rename}, verifKqExp{base + verifEntNames[j][2:], Create})
	}
	return want
}

// H_kq_history: a watched directory with arbitrary initial contents undergoes
// STEPS operations, each followed by delivery of its notifications; after every
// step the delivered events must be exactly what the step warrants.
func H_kq_history() {
	verifQReset()
	verifAddNode("/d", nDir, "")
	var m [3]verifEntModel
	for i, name := range verifEntNames {
		k := [...]int{nAbsent, nFile, nFifo}[verifChoose("init", 3)]
		if i == 2 {
			k = nAbsent
		}
		verifAddNode(name, k, "")
		m[i] = verifEntModel{kind: k, known: k != nAbsent}
	}
	verifAddNode("/l", nSymlink, "/d")
	wt, _ := verifKqNew()
	base := [...]string{"/d", "/l"}[verifChoose("spelling", 2)]
	verifAssert(wt.Add(base) == nil, "Add dir")
	verifExpect(verifCollect(wt, nil), nil, "entries that existed when the watch was added are never reported as Create")
	steps := verifParam("STEPS")
	for s := 0; s < steps; s++ {
		want := verifDirOp(&m, base)
		got := verifCollect(wt, nil)
		verifExpect(got, want, "history step")
	}
	verifRaise("/d", unix.NOTE_WRITE)
	verifExpect(verifCollect(wt, nil), nil, "a later directory change reports nothing again")
	verifAssert(wt.Close() == nil, "Close")
	verifReach("kq-history")
}
