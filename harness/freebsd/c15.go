package fsnotify

import "golang.org/x/sys/unix"

var verifKqT = [...]struct {
	bit uint32
	op  Op
}{
	{unix.NOTE_DELETE, Remove}, {unix.NOTE_WRITE, Write}, {unix.NOTE_RENAME, Rename}, {unix.NOTE_ATTRIB, Chmod},
}

func H_kqueue_newevent() {
	w := &kqueue{}
	mask := verifU32("mask")
	var union Op
	for _, r := range verifKqT {
		if mask&r.bit != 0 {
			union |= r.op
		}
	}
	want := union
	if union&Remove != 0 {
		want &^= Write // kqueue alone drops Write when Remove is present
	}
	ev := w.newEvent("/t/n", "", mask)
	verifAssert(ev.Op == want, "kqueue newEvent: union of parts, Write dropped exactly when Remove is present; NOTE_EXTEND/LINK/REVOKE/unknown bits yield nothing")
	verifAssert(ev.Name == "/t/n", "name kept when there is no link name")
	ev2 := w.newEvent("/t/target", "/t/link", mask)
	verifAssert(ev2.Op == want && ev2.Name == "/t/link", "link name substituted, same translation")
	verifAssert(ev.Op&(Create|xUnportableOpen|xUnportableRead|xUnportableCloseWrite|xUnportableCloseRead) == 0, "kqueue flags never translate to Create or unportable ops")
	verifReach("kq-newevent")
}

func H_kqueue_request() {
	// every default op other than Create needs exactly one NOTE_*; Create is
	// synthesised from NOTE_WRITE on the directory.
	var need uint32
	for _, r := range verifKqT {
		need |= r.bit
	}
	verifAssert(uint32(noteAllEvents) == need, "kqueue subscribes exactly NOTE_DELETE|NOTE_WRITE|NOTE_ATTRIB|NOTE_RENAME for a user watch")
	verifReach("kq-request")
}

func H_kqueue_supports() {
	w := &kqueue{}
	op := Op(verifU32("op"))
	unport := op&(xUnportableOpen|xUnportableRead|xUnportableCloseWrite|xUnportableCloseRead) != 0
	verifAssert(w.xSupports(op) == !unport, "kqueue supports an op set exactly when it has no unportable op")
	verifReach("kq-supports")
}
