package fsnotify

import "golang.org/x/sys/windows"

var verifWinT = [...]struct {
	bit uint32
	op  Op
}{
	{sysFSCREATE, Create}, {sysFSMOVEDTO, Create},
	{sysFSDELETE, Remove}, {sysFSDELETESELF, Remove},
	{sysFSMODIFY, Write},
	{sysFSMOVEDFROM, Rename}, {sysFSMOVESELF, Rename},
}

func verifWinOps(mask uint32) Op {
	var want Op
	for _, r := range verifWinT {
		if mask&r.bit != 0 {
			want |= r.op
		}
	}
	return want
}

func H_windows_newevent() {
	w := &readDirChangesW{}
	mask := verifU32("mask")
	ev := w.newEvent("n", mask)
	verifAssert(ev.Op == verifWinOps(mask), "windows newEvent: union of parts")
	verifAssert(ev.Op&Chmod == 0, "never Chmod on Windows")
	verifAssert(ev.Op&(xUnportableOpen|xUnportableRead|xUnportableCloseWrite|xUnportableCloseRead) == 0, "never unportable ops on Windows")
	verifAssert(ev.Name == "n", "name kept")
	verifReach("win-newevent")
}

func H_windows_action() {
	w := &readDirChangesW{}
	action := verifU32("action")
	mask := w.toFSnotifyFlags(action)
	// the watch mask of a user watch is sysFSALLEVENTS (see AddWith)
	ev := w.newEvent("n", uint32(mask)&sysFSALLEVENTS)
	var want Op
	if action == windows.FILE_ACTION_ADDED {
		want = Create
	}
	if action == windows.FILE_ACTION_REMOVED {
		want = Remove
	}
	if action == windows.FILE_ACTION_MODIFIED {
		want = Write
	}
	if action == windows.FILE_ACTION_RENAMED_OLD_NAME {
		want = Rename
	}
	if action == windows.FILE_ACTION_RENAMED_NEW_NAME {
		want = Create
	}
	verifAssert(ev.Op == want, "FILE_ACTION_* pipeline: added->Create, removed->Remove, modified->Write, renamed-old->Rename, renamed-new->Create, anything else nothing")
	verifAssert(mask>>32 == 0, "internal mask fits the 32-bit event mask")
	verifReach("win-action")
}

func H_windows_request() {
	w := &readDirChangesW{}
	mask := verifU64("mask")
	f := w.toWindowsFlags(mask)
	verifAssert((f&windows.FILE_NOTIFY_CHANGE_LAST_WRITE != 0) == (mask&sysFSMODIFY != 0), "LAST_WRITE subscribed exactly for modify")
	names := mask&(sysFSMOVEDFROM|sysFSMOVEDTO|sysFSCREATE|sysFSDELETE) != 0
	verifAssert((f&windows.FILE_NOTIFY_CHANGE_FILE_NAME != 0) == names, "FILE_NAME subscribed exactly for create/delete/move")
	verifAssert((f&windows.FILE_NOTIFY_CHANGE_DIR_NAME != 0) == names, "DIR_NAME subscribed exactly for create/delete/move")
	verifAssert(f&^(windows.FILE_NOTIFY_CHANGE_LAST_WRITE|windows.FILE_NOTIFY_CHANGE_FILE_NAME|windows.FILE_NOTIFY_CHANGE_DIR_NAME) == 0, "no unrelated notify filter (attributes, size, security...)")
	all := w.toWindowsFlags(sysFSALLEVENTS)
	verifAssert(all == windows.FILE_NOTIFY_CHANGE_LAST_WRITE|windows.FILE_NOTIFY_CHANGE_FILE_NAME|windows.FILE_NOTIFY_CHANGE_DIR_NAME, "a user watch subscribes write + both name classes")
	verifReach("win-request")
}

func H_windows_supports() {
	w := &readDirChangesW{}
	op := Op(verifU32("op"))
	unport := op&(xUnportableOpen|xUnportableRead|xUnportableCloseWrite|xUnportableCloseRead) != 0
	verifAssert(w.xSupports(op) == !unport, "windows supports an op set exactly when it has no unportable op")
	verifReach("win-supports")
}
