package ztest

import "strings"

// C20 — the test-support Diff: correct edit script, empty exactly on equality.

// verifLines builds n lines with symbolic content: equality of lines is decided
// by the solver, so one run covers every alphabet (paths partition by equality
// pattern, not by letter).
func verifLines(tag string, n int) []string {
	out := make([]string, n)
	for i := range out {
		out[i] = string([]byte{verifU8(tag), '\n'})
	}
	return out
}

func verifSameLines(a, b []string) bool {
	if len(a) != len(b) {
		return false
	}
	eq := true
	for i := range a {
		eq = verifAnd(eq, a[i] == b[i])
	}
	return eq
}

func verifCheckOpCodes(a, b []string, codes []opCode) {
	i, j := 0, 0
	var rebuilt []string
	for _, c := range codes {
		verifAssert(c.I1 == i && c.J1 == j, "opcodes must tile both sequences contiguously from (0,0)")
		verifAssert(c.I1 <= c.I2 && c.I2 <= len(a) && c.J1 <= c.J2 && c.J2 <= len(b), "opcode ranges within bounds")
		switch c.Tag {
		case 'e':
			verifAssert(c.I2-c.I1 == c.J2-c.J1 && c.I2 > c.I1, "'e' ranges have equal, non-zero length")
			for k := 0; k < c.I2-c.I1; k++ {
				verifAssert(a[c.I1+k] == b[c.J1+k], "'e' range must be element-wise equal")
			}
			rebuilt = append(rebuilt, a[c.I1:c.I2]...)
		case 'd':
			verifAssert(c.J1 == c.J2 && c.I2 > c.I1, "'d' deletes from a only")
		case 'i':
			verifAssert(c.I1 == c.I2 && c.J2 > c.J1, "'i' inserts from b only")
			rebuilt = append(rebuilt, b[c.J1:c.J2]...)
		case 'r':
			verifAssert(c.I2 > c.I1 && c.J2 > c.J1, "'r' replaces a non-empty range by a non-empty range")
			rebuilt = append(rebuilt, b[c.J1:c.J2]...)
		default:
			verifFail("unknown opcode tag")
		}
		i, j = c.I2, c.J2
	}
	verifAssert(i == len(a) && j == len(b), "opcodes must cover both sequences completely")
	verifAssert(len(rebuilt) == len(b), "applying the edit script to a must give b (length)")
	for k := range rebuilt {
		if k < len(b) {
			verifAssert(rebuilt[k] == b[k], "applying the edit script to a must give b (content)")
		}
	}
}

func H_opcodes() {
	N := verifParam("N")
	NB := verifParam("NB") // optional smaller bound for the second sequence
	if NB == 0 {
		NB = N
	}
	la := verifChoose("len-a", N+1)
	lb := verifChoose("len-b", NB+1)
	a := verifLines("a", la)
	b := verifLines("b", lb)
	m := newMatcher(a, b)
	codes := m.GetOpCodes()
	verifCheckOpCodes(a, b, codes)
	same := verifSameLines(a, b)
	allEq := true
	for _, c := range codes {
		if c.Tag != 'e' {
			allEq = false
		}
	}
	verifAssert(allEq == same, "only 'e' opcodes exactly when the sequences are equal")
	if la == N && lb == NB {
		verifReach("opcodes-maxlen")
	}
	verifReach("opcodes")
}

// verifCountBody counts the ' ', '-', '+' body lines of a hunk given as text lines.
func H_unified() {
	N := verifParam("N")
	la := 1 + verifChoose("len-a", N)
	lb := 1 + verifChoose("len-b", N)
	a := verifLines("a", la)
	b := verifLines("b", lb)
	same := verifSameLines(a, b)
	m := newMatcher(a, b)
	groups := m.GetGroupedOpCodes(3)
	verifAssert((len(groups) == 0) == same, "no hunk exactly when the sequences are equal")
	for _, g := range groups {
		verifAssert(len(g) > 0, "a hunk is not empty")
		first, last := g[0], g[len(g)-1]
		if first.Tag == 'e' {
			verifAssert(first.I2-first.I1 <= 3, "at most three unchanged lines at the start of a hunk")
		}
		if last.Tag == 'e' {
			verifAssert(last.I2-last.I1 <= 3, "at most three unchanged lines at the end of a hunk")
		}
		changed := false
		for _, c := range g {
			if c.Tag != 'e' {
				changed = true
			}
		}
		verifAssert(changed, "a hunk contains a change")
	}
	out := makeUnifiedDiff(unifiedDiff{A: a, B: b, Context: 3})
	verifAssert((out == "") == same, "unified diff is empty exactly when the sequences are equal")
	if !same {
		// header numbers agree with the body: recompute from the groups
		want := "--- have\n+++ want\n"
		for _, g := range groups {
			first, last := g[0], g[len(g)-1]
			nm, np := 0, 0
			body := ""
			for _, c := range g {
				if c.Tag == 'e' {
					for k := c.I1; k < c.I2; k++ {
						body += "      " + a[k]
						nm++
						np++
					}
					continue
				}
				if c.Tag == 'r' || c.Tag == 'd' {
					for k := c.I1; k < c.I2; k++ {
						body += "-have " + a[k]
						nm++
					}
				}
				if c.Tag == 'r' || c.Tag == 'i' {
					for k := c.J1; k < c.J2; k++ {
						body += "+want " + b[k]
						np++
					}
				}
			}
			verifAssert(nm == last.I2-first.I1 && np == last.J2-first.J1, "hunk header line counts agree with the hunk body")
			want += "@@ -" + verifRange(first.I1, nm) + " +" + verifRange(first.J1, np) + " @@\n" + body
		}
		verifAssert(out == want, "unified diff text = headers that agree with their bodies + the bodies")
		verifReach("unified-differs")
	} else {
		verifReach("unified-equal")
	}
}

// verifRange: POSIX unified range for a hunk starting at 0-based index start with n lines.
func verifRange(start, n int) string {
	itoa := func(v int) string {
		if v == 0 {
			return "0"
		}
		s := ""
		for v > 0 {
			s = string(rune('0'+v%10)) + s
			v /= 10
		}
		return s
	}
	if n == 1 {
		return itoa(start + 1)
	}
	if n == 0 {
		return itoa(start) + ",0"
	}
	return itoa(start+1) + "," + itoa(n)
}

// Group splitting needs more than six equal lines between two changes.
func H_groups() {
	mid := []string{"m1\n", "m2\n", "m3\n", "m4\n", "m5\n", "m6\n", "m7\n", "m8\n"}
	nmid := 6 + verifChoose("mid", 3)
	var a, b []string
	a = append(a, verifLines("s1", verifChoose("s1", 2))...)
	b = append(b, verifLines("t1", verifChoose("t1", 2))...)
	a = append(a, mid[:nmid]...)
	b = append(b, mid[:nmid]...)
	a = append(a, verifLines("s2", verifChoose("s2", 2))...)
	b = append(b, verifLines("t2", verifChoose("t2", 2))...)
	// the symbolic lines differ from the concrete middle lines (2 bytes vs 3 bytes): no accidental matches there
	m := newMatcher(a, b)
	codes := m.GetOpCodes()
	verifCheckOpCodes(a, b, codes)
	groups := m.GetGroupedOpCodes(3)
	same := verifSameLines(a, b)
	verifAssert((len(groups) == 0) == same, "no hunk exactly when equal")
	for gi, g := range groups {
		first, last := g[0], g[len(g)-1]
		if first.Tag == 'e' {
			verifAssert(first.I2-first.I1 <= 3, "at most three unchanged lines at the start of a hunk")
		}
		if last.Tag == 'e' {
			verifAssert(last.I2-last.I1 <= 3, "at most three unchanged lines at the end of a hunk")
		}
		if gi > 0 {
			prev := groups[gi-1]
			verifAssert(first.I1-prev[len(prev)-1].I2 >= 1, "separate hunks are separated by omitted unchanged lines")
		}
		for ci, c := range g {
			if c.Tag == 'e' && ci > 0 && ci < len(g)-1 {
				verifAssert(c.I2-c.I1 <= 6, "an unchanged run inside a hunk is at most 2x context")
			}
		}
	}
	if len(groups) == 2 {
		verifReach("groups-split")
	}
	verifReach("groups")
}

var verifTexts = [...]string{"", "a", "a\n", "  a  ", "a\nb", "a\nb\n", "a\n\nb", "\n\na\nb\n\n", "a\nc", "b", " ",
	"a\nb\r\n", "\ta\f", "\va\u00a0", "\u0085a\u2003", "\r\n", "a\nb\nc\nd\ne\nf\ng\nh\ni", "a\nb\nc\nd\nX\nf\ng\nh\ni"}

func H_diff_entry() {
	have := verifTexts[verifChoose("have", len(verifTexts))]
	want := verifTexts[verifChoose("want", len(verifTexts))]
	d := Diff(have, want)
	eq := strings.TrimSpace(have) == strings.TrimSpace(want)
	verifAssert((d == "") == eq, "Diff returns the empty string exactly when the texts are equal after trimming surrounding white space")
	if !eq {
		verifAssert(strings.HasPrefix(d, "\n--- have\n+++ want\n@@ "), "a non-empty Diff is a unified diff")
		verifReach("diff-differs")
	} else {
		verifReach("diff-equal")
	}
}

func H_range() {
	start := verifChoose("start", 6)
	n := verifChoose("n", 5)
	verifAssert(formatRangeUnified(start, start+n) == verifRange(start, n), "formatRangeUnified follows the POSIX rule")
	verifReach("range")
}

// DiffMatch entry point over a table of (text, expectation with placeholders,
// does it match). regexp, strings.Replacer and the clock are executed natively
// on these concrete strings (trusted); the real DiffMatch code - placeholder
// expansion, quick check, per-line matcher - is what is interpreted.
var verifMatchCases = [...]struct {
	have, want string
	match      bool
}{
	{"Hello world", "Hello world", true},
	{"Hello world", "He%(ANY)", true},
	{"Hello world\nextra", "He%(ANY)", false},
	{"Hello", "He%(ANY 3)", true},
	{"Hello", "He%(ANY 2)", false},
	{"Hello", "He%(ANY 4,)", false},
	{"id 123", "id %(NUMBER)", true},
	{"id abc", "id %(NUMBER)", false},
	{"id 123", "id %(NUMBER 3)", true},
	{"id abc", "id %(NUMBER 3)", false},
	{"id 1234", "id %(NUMBER 3)", false},
	{"u 0f8fad5b-d9cb-469f-a165-70867728950e", "u %(UUID)", true},
	{"u 0F8FAD5B-D9CB-469F-A165-70867728950E", "u %(UUID)", true},
	{"u 0f8fad5b-d9cb-469f-a165-7086772895", "u %(UUID)", false},
	{"a\nb 7\nc", "a\nb %(NUMBER)\nc", true},
	{"a\nb x\nc", "a\nb %(NUMBER)\nc", false},
	{"x (1)", "x (1)", true},
	{"x.y", "x%(ANY 1)y", true},
	{"xy", "x.y", false},
}

func H_diffmatch() {
	c := verifMatchCases[verifChoose("case", len(verifMatchCases))]
	d := DiffMatch(c.have, c.want)
	verifAssert((d == "") == c.match, "DiffMatch returns the empty string exactly when the text matches the expectation after its placeholders are expanded")
	if c.match {
		verifReach("diffmatch-match")
	} else {
		verifReach("diffmatch-differs")
	}
}
