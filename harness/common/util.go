package fsnotify

import "strconv"

func strconvQuote(s string) string { return strconv.Quote(s) }
