package fsnotify

// C16 — Op / Event predicates and renderings.

func H_has() {
	o := Op(verifU32("o"))
	h := Op(verifU32("h"))
	got := o.Has(h)
	verifAssert(got == (uint32(o)&uint32(h) != 0), "Op.Has(h) is true exactly when the sets intersect")
	e := Event{Name: "x", Op: o}
	verifAssert(e.Has(h) == got, "Event.Has agrees with Op.Has")
	verifReach("has")
}

// refOpNames is the documented rendering order, written independently of Op.String.
var refOpNames = [...]struct {
	bit  uint32
	name string
}{
	{1 << 0, "CREATE"}, {1 << 2, "REMOVE"}, {1 << 1, "WRITE"}, {1 << 5, "OPEN"}, {1 << 6, "READ"},
	{1 << 7, "CLOSE_WRITE"}, {1 << 8, "CLOSE_READ"}, {1 << 3, "RENAME"}, {1 << 4, "CHMOD"},
}

func refOpString(o uint32) string {
	s := ""
	for _, r := range refOpNames {
		if o&r.bit != 0 {
			if s != "" {
				s += "|"
			}
			s += r.name
		}
	}
	if s == "" {
		return "[no events]"
	}
	return s
}

func H_opstring() {
	o := verifU32("o")
	got := Op(o).String()
	want := refOpString(o)
	verifAssert(got == want, "Op.String renders exactly the defined operations present, fixed order, undefined bits ignored")
	if o&0x1ff == 0 {
		verifReach("opstring-none")
	} else {
		verifReach("opstring-some")
	}
}
