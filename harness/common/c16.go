package fsnotify

import "strings"

// C16 — Op / Event predicates and renderings.

func H_has() {
	o := Op(verifU32("o"))
	h := Op(verifU32("h"))
	got := o.Has(h)
	// spec, bit by bit: some operation is in both sets
	inter := false
	for i := uint(0); i < 32; i++ {
		inter = verifOr(inter, verifAnd(uint32(o)>>i&1 == 1, uint32(h)>>i&1 == 1))
	}
	verifAssert(got == inter, "Op.Has(h) is true exactly when the sets intersect")
	e := Event{Name: "x", Op: o}
	if verifBool("renamed-from") { // the Create half of a rename carries the old name; it is not part of the operation set
		e.renamedFrom = "/t/old"
	}
	verifAssert(e.Has(h) == got, "Event.Has agrees with Op.Has, whatever else the event carries")
	verifReach("has")
}

// The reference rendering is derived from the implementation's own answers on
// CONCRETE inputs only - the name of each single operation and the order in the
// rendering of the full set - so that the oracle does not pin the spelling or
// the order, only what the property states: exactly the defined operations
// present, each once, '|'-joined in one fixed order, "[no events]" for none,
// undefined bits never altering the text, distinct sets rendering differently.
var (
	verifOpOrder [9]uint32 // bit of the k-th name in the fixed order
	verifOpName  [9]string
)

func verifLearnOpNames() {
	all := Op(0x1ff).String()
	parts := strings.Split(all, "|")
	verifAssert(len(parts) == 9, "the full set renders nine '|'-joined names")
	for k := 0; k < 9 && k < len(parts); k++ {
		found := 0
		for i := uint(0); i < 9; i++ {
			single := Op(1 << i).String()
			verifAssert(!strings.Contains(single, "|") && single != "" && single != "[no events]", "a single operation renders as one name")
			if single == parts[k] {
				verifOpOrder[k] = 1 << i
				verifOpName[k] = single
				found++
			}
		}
		verifAssert(found == 1, "every name of the full rendering belongs to exactly one operation (distinct operations have distinct names)")
	}
}

func refOpString(o uint32) string {
	s := ""
	for k := 0; k < 9; k++ {
		if o&verifOpOrder[k] != 0 {
			if s != "" {
				s += "|"
			}
			s += verifOpName[k]
		}
	}
	if s == "" {
		return "[no events]"
	}
	return s
}

func H_opstring() {
	verifLearnOpNames()
	o := verifU32("o")
	got := Op(o).String()
	want := refOpString(o)
	verifAssert(got == want, "Op.String renders exactly the defined operations present, each once, in the fixed order; undefined bits never alter the text")
	if o&0x1ff == 0 {
		verifReach("opstring-none")
	} else {
		verifReach("opstring-some")
	}
}

var verifNames = [...]string{"", "q\"uote", "line\nbreak", "bad\xff\xfeutf8", "ünï©ode/文件", "a b", "tab\there", "nul\x00byte",
	"0123456789012345678901234567890123456789012345678901234567890123456789012345678901234567890123456789012345678901234567890123456789012345678901234567890123456789012345678901234567890123456789012345678901234567890123456789012345678901234567890123456789012345"}

func H_eventstring() {
	verifLearnOpNames()
	o := verifU32("o")
	nn := verifParam("NAMES")
	if nn == 0 || nn > len(verifNames) {
		nn = len(verifNames)
	}
	name := verifNames[verifChoose("name", nn)]
	from := verifNames[verifChoose("from", nn)]
	e := Event{Name: name, Op: Op(o), renamedFrom: from}
	got := e.String()
	opText := refOpString(o)
	qn, qf := strconvQuote(name), strconvQuote(from)
	verifAssert(strings.HasPrefix(got, opText), "Event.String starts with the Op text")
	rest := got[len(opText):]
	i := strings.Index(rest, qn)
	verifAssert(i >= 0 && strings.TrimSpace(rest[:i]) == "", "then the quoted name (only padding in between)")
	if i >= 0 {
		tail := rest[i+len(qn):]
		if from != "" {
			verifAssert(strings.HasSuffix(tail, qf) && len(tail) > len(qf), "for the new name of a rename the quoted old name follows")
			verifReach("eventstring-renamed")
		} else {
			verifAssert(tail == "", "no old name shown when there is none")
			verifReach("eventstring-plain")
		}
	}
}
