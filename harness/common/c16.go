package fsnotify

// C16 — Op / Event predicates and renderings.

func H_has() {
	o := Op(verifU32("o"))
	h := Op(verifU32("h"))
	got := o.Has(h)
	// spec, bit by bit: some operation is in both sets
	inter := false
	for i := uint(0); i < 32; i++ {
		inter = verifOr(inter, verifAnd(uint32(o)>>i&1 == 1, uint32(h)>>i&1 == 1))
	}
	verifAssert(got == inter, "Op.Has(h) is true exactly when the sets intersect")
	e := Event{Name: "x", Op: o}
	verifAssert(e.Has(h) == got, "Event.Has agrees with Op.Has")
	verifReach("has")
}

// refOpNames is the documented rendering order, written independently of Op.String.
var refOpNames = [...]struct {
	bit  uint32
	name string
}{
	{1 << 0, "CREATE"}, {1 << 2, "REMOVE"}, {1 << 1, "WRITE"}, {1 << 5, "OPEN"}, {1 << 6, "READ"},
	{1 << 7, "CLOSE_WRITE"}, {1 << 8, "CLOSE_READ"}, {1 << 3, "RENAME"}, {1 << 4, "CHMOD"},
}

func refOpString(o uint32) string {
	s := ""
	for _, r := range refOpNames {
		if o&r.bit != 0 {
			if s != "" {
				s += "|"
			}
			s += r.name
		}
	}
	if s == "" {
		return "[no events]"
	}
	return s
}

func H_opstring() {
	o := verifU32("o")
	got := Op(o).String()
	want := refOpString(o)
	verifAssert(got == want, "Op.String renders exactly the defined operations present, fixed order, undefined bits ignored")
	if o&0x1ff == 0 {
		verifReach("opstring-none")
	} else {
		verifReach("opstring-some")
	}
}

var verifNames = [...]string{"", "a b", "q\"uote", "line\nbreak", "tab\there", "bad\xff\xfeutf8", "nul\x00byte", "ünï©ode/文件",
	"0123456789012345678901234567890123456789012345678901234567890123456789012345678901234567890123456789012345678901234567890123456789012345678901234567890123456789012345678901234567890123456789012345678901234567890123456789012345678901234567890123456789012345"}

func verifPad13(s string) string {
	for len(s) < 13 {
		s += " "
	}
	return s
}

func H_eventstring() {
	o := verifU32("o")
	name := verifNames[verifChoose("name", len(verifNames))]
	from := verifNames[verifChoose("from", len(verifNames))]
	e := Event{Name: name, Op: Op(o), renamedFrom: from}
	got := e.String()
	want := verifPad13(refOpString(o)) + " " + strconvQuote(name)
	if from != "" {
		want += " ← " + strconvQuote(from)
		verifReach("eventstring-renamed")
	} else {
		verifReach("eventstring-plain")
	}
	verifAssert(got == want, "Event.String = padded Op text, quoted name, and the quoted old name exactly when there is one")
}
