package fsnotify

// Harness vocabulary. These declarations have no bodies: the symbolic engine
// intercepts them; the native replay substitutes verif_native.go for this file.

func verifU8(tag string) uint8
func verifU16(tag string) uint16
func verifU32(tag string) uint32
func verifI32(tag string) int32
func verifU64(tag string) uint64
func verifInt(tag string) int
func verifBool(tag string) bool
func verifChoose(tag string, n int) int
func verifHavoc(b []byte)
func verifAssume(c bool)
func verifAssert(c bool, msg string)
func verifFail(msg string)
func verifReach(tag string)
func verifImplies(a, b bool) bool
func verifAnd(a, b bool) bool
func verifOr(a, b bool) bool
func verifIte32(c bool, a, b uint32) uint32
func verifIteInt(c bool, a, b int) int
func verifParam(name string) int
func verifYield()
func verifQuiesce()
func verifStrByte(s string, i int) uint8
func verifBufString(b []byte, off int, n int) string
func verifGoroutines() int
func verifNote(msg string)
func verifSetOwner(o int)
func verifForbidOwner(o int, on bool)
func verifMonitor(name string, on bool)
func verifGuardMap(mu interface{}, m interface{})
func verifGuardPtr(mu interface{}, p interface{})
func verifNoteU(msg string, v uint64)
func verifLoad32(b []byte, off int) uint32
func verifByteAt(b []byte, off int) uint8
func verifChanStat(ch interface{}, what string) int
