package fsnotify

func H_fen_supports() {
	w := &fen{}
	op := Op(verifU32("op"))
	unport := op&(xUnportableOpen|xUnportableRead|xUnportableCloseWrite|xUnportableCloseRead) != 0
	verifAssert(w.xSupports(op) == !unport, "FEN supports an op set exactly when it has no unportable op")
	verifReach("fen-supports")
}
