#!/usr/bin/env python3
"""Regenerate MANIFEST.json from checks.json + manifest_meta.json (dev helper)."""
import json, os
R = os.path.dirname(os.path.abspath(__file__))
props = [json.loads(l)["id"] for l in open(os.path.join(R, "properties.jsonl"))]
checks = json.load(open(os.path.join(R, "checks.json")))
meta = json.load(open(os.path.join(R, "manifest_meta.json")))
m = {
 "version": 1,
 "setup_cmd": "./setup.sh",
 "hooks": {"guard": "verif",
           "enable": "none needed: harnesses, kernel-model stubs and seam redirections are injected in-package through go/packages overlays (engine) and go test -overlay (native replay); /repo is never written by a check",
           "baseline_off_cmd": "cd /repo && go test -vet=off -count=1 -timeout 25m ./...",
           "source_commits": meta.get("hook_commits", []), "add_only": True},
 "engines": [{"name": "gosym", "path": "/verif/gosym", "serves_properties": sorted(checks.keys()),
              "kind_free_text": "own bounded symbolic executor for Go: go/ssa of /repo's working tree -> SMT-LIB2 (bit-vectors, byte arrays), forking + diamond merging, z3 4.8.12 back end (z3 5.1 cross-check in the thorough tier); counterexamples are replayed natively before being reported (DESIGN.md sections 2-4)"}],
 "checks": [], "not_applicable": [], "notes": meta.get("notes", "")}
for p in props:
    if p in checks and p in meta["checks"]:
        mm = meta["checks"][p]
        m["checks"].append({
            "property_id": p,
            "quick_cmd": "./check %s --tier quick" % p,
            "thorough_cmd": "./check %s --tier thorough" % p,
            "evidence_file": "/verif/evidence/%s.json" % p,
            "replay_cmd_template": "./check %s --replay {path}" % p,
            "engine": "gosym",
            "level_claimed": {"category": "model_checking", "text": mm["text"], "design_ref": mm.get("design_ref", "DESIGN.md section 5, " + p)},
            "level_note": mm["note"],
            "technique": mm.get("technique", "bounded symbolic execution of the real code (go/ssa -> SMT, z3) with native replay of counterexamples"),
        })
    else:
        m["not_applicable"].append({"property_id": p, "reason": meta.get("na", {}).get(p, "check not built yet (engine under construction); plan in DESIGN.md section 5")})
json.dump(m, open(os.path.join(R, "MANIFEST.json"), "w"), indent=1)
print("checks:", [c["property_id"] for c in m["checks"]], "n/a:", len(m["not_applicable"]))
