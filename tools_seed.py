#!/usr/bin/env python3
"""tools_seed.py <src_dir> <seed_id> [check ids...]

Confirm a seeded change produced by a sub-agent and run checks against it.
 src_dir: directory with patch.diff, demo_test.go.txt, meta.json
 seed_id: name under /verif/seeded/ (e.g. C01-1)
Confirmation happens in a scratch worktree under /tmp (removed afterwards);
checks run against /repo with the patch applied, which is undone straight after.
"""
import json, os, re, shutil, subprocess, sys, time
ENV = dict(os.environ, GOFLAGS="-mod=mod", GOPROXY="off", GOSUMDB="off", GOTOOLCHAIN="local")
def sh(cmd, cwd=None, timeout=1800):
    r = subprocess.run(cmd, shell=True, cwd=cwd, env=ENV, capture_output=True, text=True, timeout=timeout)
    return r.returncode, r.stdout + r.stderr
def failing_tests(out):
    return sorted(set(re.findall(r"^\s*--- FAIL: (\S+)", out, re.M)))
ALLOWED = {"TestAdd", "TestAdd/permission_denied", "TestWatchMultipleWrite"}
def main():
    nodemo = "--nodemo" in sys.argv
    args = [a for a in sys.argv[1:] if a != "--nodemo"]
    src, sid = args[0], args[1]
    checks = args[2:]
    dst = os.path.join("/verif/seeded", sid)
    os.makedirs(dst, exist_ok=True)
    for f in ("patch.diff", "demo_test.go.txt", "meta.json"):
        if os.path.abspath(src) != os.path.abspath(dst) and os.path.exists(os.path.join(src, f)):
            shutil.copy(os.path.join(src, f), os.path.join(dst, f))
    meta = json.load(open(os.path.join(dst, "meta.json")))
    patch = os.path.join(dst, "patch.diff")
    demo = open(os.path.join(dst, "demo_test.go.txt")).read()
    pkgdir = "internal/ztest" if re.search(r"^package ztest", demo, re.M) else "."
    wt = "/tmp/confirm-" + sid
    sh("git -C /repo worktree remove --force %s" % wt)
    rc, out = sh("git -C /repo worktree add -q --detach %s HEAD" % wt)
    ran = []
    results = {}
    confirmed = False
    try:
        shutil.copy(os.path.join(dst, "demo_test.go.txt"), os.path.join(wt, pkgdir, "zz_demo_test.go"))
        rc0, out0 = sh("go test -vet=off -count=1 -run 'Demo|Seed|Verif|Zz' ./%s 2>&1 | tail -30" % pkgdir, cwd=wt)
        # run demo test functions: all tests defined in the demo file
        names = re.findall(r"^func (Test\w+)\(", demo, re.M)
        pat = "^(" + "|".join(names) + ")$"
        rc_clean, out_clean = sh("go test -vet=off -count=1 -run '%s' ./%s" % (pat, pkgdir), cwd=wt)
        ran.append("clean tree: demo %s rc=%d" % (names, rc_clean))
        rc_a, out_a = sh("git apply %s" % patch, cwd=wt)
        ran.append("git apply rc=%d %s" % (rc_a, out_a.strip()[:200]))
        rc_b, out_b = sh("go build ./... && GOOS=freebsd go build . && GOOS=windows go build .", cwd=wt)
        ran.append("build (linux, freebsd, windows) rc=%d" % rc_b)
        rc_demo, out_demo = sh("go test -vet=off -count=1 -run '%s' ./%s" % (pat, pkgdir), cwd=wt)
        ran.append("patched tree: demo rc=%d" % rc_demo)
        os.remove(os.path.join(wt, pkgdir, "zz_demo_test.go"))
        rc_s, out_s = sh("go test -vet=off -count=1 -timeout 25m ./...", cwd=wt)
        ft = failing_tests(out_s)
        bad = [t for t in ft if t not in ALLOWED and t.split("/")[0] not in ("TestAdd",) ]
        if bad:  # retry once for flakes under load
            rc_s, out_s = sh("go test -vet=off -count=1 -timeout 25m ./...", cwd=wt)
            ft = failing_tests(out_s)
            bad = [t for t in ft if t not in ALLOWED]
        ran.append("patched tree: suite failing=%s" % ft)
        confirmed = rc_a == 0 and rc_b == 0 and not bad and (nodemo or (rc_clean == 0 and rc_demo != 0))
        if nodemo:
            ran.append("demo not runnable on this machine (kqueue backend): confirmed by build + vet + Linux suite + reading meta.json")
        results = {}
        if confirmed:
            # run the checks against the scratch worktree (patch still applied); /repo stays untouched
            env2 = "VERIF_REPO=%s VERIF_EVIDENCE_DIR=/tmp/seed-evidence-%s" % (wt, sid)
            for c in checks:
                t0 = time.time()
                rc, out = sh("%s timeout 1500 ./check %s" % (env2, c), cwd="/verif", timeout=1600)
                lines = [l for l in out.splitlines() if l.startswith(("VIOLATION", "KNOWN-FINDING", "INCONCLUSIVE", "  harness=")) ][:6]
                results[c] = {"rc": rc, "wall_s": round(time.time() - t0, 1), "lines": lines}
            sh("rm -rf /tmp/seed-evidence-%s" % sid)
    finally:
        sh("git -C /repo worktree remove --force %s" % wt)
        sh("rm -rf %s" % wt)
    meta["confirmed"] = confirmed
    meta["confirm_ran"] = ran
    meta["checks"] = results
    meta["detected"] = any(r["rc"] == 1 for r in results.values())
    json.dump(meta, open(os.path.join(dst, "meta.json"), "w"), indent=1)
    print(sid, "confirmed=%s" % confirmed, {c: r["rc"] for c, r in results.items()})
    for l in ran: print("   ", l)
    for c, r in results.items():
        for l in r["lines"]: print("   ", c, l[:200])
main()
