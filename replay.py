"""Native replay of solver counterexamples (DESIGN.md section 4).

replay(): builds /verif/replays/<id>/<harness>-<hash>/ with
  values.json   the solver's assignment, in nondet call order
  overlay.json  go test -overlay mapping: harness files (as _test.go), native
                intrinsics, and seam-rewritten copies of the affected sources
  run.sh        the exact command
  log.txt       transcript
and runs it against /repo's working tree. Nothing is written to /repo.
"""
import hashlib
import json
import os
import re
import shutil
import subprocess
import tempfile

ENV = dict(os.environ, GOFLAGS="-mod=mod", GOPROXY="off", GOSUMDB="off", GOTOOLCHAIN="local")


def harness_names(overlays, exclude=()):
    names = []
    for od in overlays:
        for f in sorted(os.listdir(od)):
            if f.endswith(".go") and f not in exclude:
                names += re.findall(r"^func (H_\w+)\(\)", open(os.path.join(od, f)).read(), re.M)
    return names


KQ_NATIVE = """
// freebsd kevent(2) vocabulary for the Linux-compiled replay of backend_kqueue.go
type verifKeventT struct {
	Ident  uint64
	Filter int16
	Flags  uint16
	Fflags uint32
	Data   int64
	Udata  *byte
	Ext    [4]uint64
}

const (
	verifNOTE_DELETE = 0x1
	verifNOTE_WRITE  = 0x2
	verifNOTE_EXTEND = 0x4
	verifNOTE_ATTRIB = 0x8
	verifNOTE_LINK   = 0x10
	verifNOTE_RENAME = 0x20
	verifNOTE_REVOKE = 0x40
	verifEVFILT_READ  = -1
	verifEVFILT_VNODE = -4
	verifEV_ADD     = 0x1
	verifEV_DELETE  = 0x2
	verifEV_ENABLE  = 0x4
	verifEV_DISABLE = 0x8
	verifEV_ONESHOT = 0x10
	verifEV_CLEAR   = 0x20
)
"""


def kq_port(txt):
    """Make a freebsd source file of package fsnotify compile on Linux for the replay."""
    txt = re.sub(r"^//go:build .*$", "//go:build linux", txt, count=1, flags=re.M)
    txt = txt.replace("unix.Kevent_t", "verifKeventT")
    txt = re.sub(r"\bunix\.(NOTE_|EVFILT_|EV_)", r"verif\1", txt)
    txt = txt.replace("internal.Debug(path.name, &kevent)", "_ = &kevent")
    i = txt.find("// imports kept alive after seam rewriting")
    if i >= 0:
        txt = txt[:i]
    for name, path in (("unix", "golang.org/x/sys/unix"), ("internal", "github.com/fsnotify/fsnotify/internal"), ("errors", "errors"),
                       ("runtime", "runtime"), ("sort", "sort"), ("time", "time"), ("sync", "sync"), ("fmt", "fmt"), ("os", "os"), ("filepath", "path/filepath")):
        if not re.search(r"\b%s\." % name, re.sub(r'"[^"\n]*"', '""', txt)):
            txt = re.sub(r'^\s*(import\s+)?"%s"\s*$' % re.escape(path), "", txt, flags=re.M)
    return txt


def build_kqueue(root, repo, rdir, run, overlays):
    """Linux-compiled replay of the kqueue backend: seam-rewritten backend_kqueue.go with the
    kevent vocabulary substituted, backend_inotify.go and the repository's own tests left out."""
    pkgdir = os.path.normpath(repo)
    gen = os.path.join(rdir, "gen")
    os.makedirs(gen, exist_ok=True)
    mapping = {}
    for od in overlays:
        for f in sorted(os.listdir(od)):
            if not f.endswith(".go") or f == "intrinsics.go" or f in run.get("exclude", []):
                continue
            dst = os.path.join(gen, "h_" + os.path.basename(od) + "_" + f)
            open(dst, "w").write(kq_port(open(os.path.join(od, f)).read()))
            mapping[os.path.join(pkgdir, "zz_verif_%s_%s_test.go" % (os.path.basename(od), f[:-3]))] = dst
    tmpl = open(os.path.join(root, "native", "verif_native.go.txt")).read()
    hm = "".join('\t"%s": %s,\n' % (h, h) for h in harness_names(overlays, run.get("exclude", [])))
    nat = tmpl.replace("PKGNAME", "fsnotify").replace("PKGPATH", "github.com/fsnotify/fsnotify").replace("HARNESSMAP", hm) + KQ_NATIVE
    natf = os.path.join(gen, "verif_native.go")
    open(natf, "w").write(nat)
    mapping[os.path.join(pkgdir, "zz_verif_native_test.go")] = natf
    r = subprocess.run([os.path.join(root, "bin", "gosym"), "rewrite", "-dir", repo, "-pkg", ".", "-goos", "freebsd",
                        "-seams", os.path.join(root, "seams.json"), "-outdir", gen], env=ENV, capture_output=True, text=True)
    if r.returncode != 0:
        return None, "rewrite failed: " + r.stderr[-300:]
    for orig, new in json.loads(r.stdout.strip().splitlines()[-1]).items():
        ported = kq_port(open(new).read())
        open(new, "w").write(ported)
        mapping[orig] = new
    # the BSD-only helper file and the files that must not be part of the Linux build
    sb = os.path.join(gen, "system_bsd.go")
    open(sb, "w").write(kq_port(open(os.path.join(pkgdir, "system_bsd.go")).read()))
    mapping[os.path.join(pkgdir, "system_bsd.go")] = sb
    mapping[os.path.join(pkgdir, "backend_inotify.go")] = ""
    for f in os.listdir(pkgdir):
        if f.endswith("_test.go"):
            mapping[os.path.join(pkgdir, f)] = ""
    ov = os.path.join(rdir, "overlay.json")
    json.dump({"Replace": mapping}, open(ov, "w"), indent=1)
    return ov, None


def build(root, repo, rdir, run, overlays):
    if run.get("goos", "linux") == "freebsd":
        return build_kqueue(root, repo, rdir, run, overlays)
    goos = run.get("goos", "linux")
    pkg = run.get("pkg", ".")
    pkgdir = os.path.normpath(os.path.join(repo, pkg))
    gen = os.path.join(rdir, "gen")
    os.makedirs(gen, exist_ok=True)
    mapping = {}
    # package name / path
    pkgname = "fsnotify" if pkg == "." else os.path.basename(pkg)
    pkgpath = "github.com/fsnotify/fsnotify" + ("" if pkg == "." else "/" + pkg)
    for od in overlays:
        for f in sorted(os.listdir(od)):
            if not f.endswith(".go") or f == "intrinsics.go" or f in run.get("exclude", []):
                continue
            dst = os.path.join(gen, "h_" + os.path.basename(od) + "_" + f)
            shutil.copy(os.path.join(od, f), dst)
            mapping[os.path.join(pkgdir, "zz_verif_%s_%s_test.go" % (os.path.basename(od), f[:-3]))] = dst
    tmpl = open(os.path.join(root, "native", "verif_native.go.txt")).read()
    hm = "".join('\t"%s": %s,\n' % (h, h) for h in harness_names(overlays, run.get("exclude", [])))
    nat = tmpl.replace("PKGNAME", pkgname).replace("PKGPATH", pkgpath).replace("HARNESSMAP", hm)
    natf = os.path.join(gen, "verif_native.go")
    open(natf, "w").write(nat)
    mapping[os.path.join(pkgdir, "zz_verif_native_test.go")] = natf
    # seam-rewritten sources
    r = subprocess.run([os.path.join(root, "bin", "gosym"), "rewrite", "-dir", repo, "-pkg", pkg, "-goos", goos,
                        "-seams", os.path.join(root, "seams.json"), "-outdir", gen], env=ENV, capture_output=True, text=True)
    if r.returncode != 0:
        return None, "rewrite failed: " + r.stderr[-300:]
    for orig, new in json.loads(r.stdout.strip().splitlines()[-1]).items():
        mapping[orig] = new
    ov = os.path.join(rdir, "overlay.json")
    json.dump({"Replace": mapping}, open(ov, "w"), indent=1)
    return ov, None


def run_native(repo, rdir, run, race=False):
    pkg = run.get("pkg", ".")
    cmd = ["go", "test", "-v", "-vet=off", "-count=1", "-run", "^TestVerifReplay$", "-overlay", os.path.join(rdir, "overlay.json"), "-timeout", "120s"]
    if race:
        cmd.append("-race")
    cmd.append("./" + pkg)
    env = dict(ENV, VERIF_VALUES=os.path.join(rdir, "values.json"))
    open(os.path.join(rdir, "run.sh"), "w").write(
        "#!/bin/sh\ncd %s && VERIF_VALUES=%s GOFLAGS=-mod=mod GOPROXY=off GOSUMDB=off GOTOOLCHAIN=local %s\n" % (
            repo, os.path.join(rdir, "values.json"), " ".join(cmd)))
    try:
        r = subprocess.run(cmd, cwd=repo, env=env, capture_output=True, text=True, timeout=300)
        out = r.stdout + r.stderr
    except subprocess.TimeoutExpired:
        out = "VERIF-REPLAY: timeout"
    open(os.path.join(rdir, "log.txt"), "w").write(out)
    return out


def classify(out, fail):
    m = re.search(r"^VERIF-REPLAY: (\w+)(?:: (.*))?$", out, re.M)
    if not m:
        if "DATA RACE" in out and fail["outcome"] == "race":
            return "reproduced", "race detector report"
        return "error", out[-400:]
    kind, detail = m.group(1), m.group(2) or ""
    want = fail["outcome"]
    if want == "assert" and kind == "violation":
        if detail.strip() == fail["msg"].strip():
            return "reproduced", detail
        return "reproduced", "different assertion failed natively: " + detail
    if want == "panic" and kind == "panic":
        return "reproduced", detail
    if want == "deadlock" and kind == "deadlock":
        return "reproduced", detail
    if want == "race" and "DATA RACE" in out:
        return "reproduced", "race detector report"
    return "mismatch", "engine says %s (%s), native says %s (%s)" % (want, fail["msg"], kind, detail)


def replay(root, repo, pid, run, harness, fail, params, overlays):
    if run.get("goos", "linux") not in ("linux", "freebsd") or run.get("no_replay"):
        key = hashlib.sha1(json.dumps([harness, fail["outcome"], fail["msg"], fail.get("nondet")], sort_keys=True).encode()).hexdigest()[:10]
        rdir = os.path.join(root, "replays", pid, "%s-%s" % (harness, key))
        os.makedirs(rdir, exist_ok=True)
        json.dump(dict(harness=harness, outcome=fail["outcome"], msg=fail["msg"], where=fail["where"], nondet=fail.get("nondet") or [],
                       params=params, decisions=fail.get("decisions"), sched=fail.get("sched"), notes=fail.get("notes")),
                  open(os.path.join(rdir, "values.json"), "w"), indent=1)
        return dict(status="unavailable", dir=rdir, detail="no native replay for this GOOS/harness class")
    key = hashlib.sha1(json.dumps([harness, fail["outcome"], fail["msg"], fail.get("nondet")], sort_keys=True).encode()).hexdigest()[:10]
    rdir = os.path.join(root, "replays", pid, "%s-%s" % (harness, key))
    if os.path.exists(rdir):
        shutil.rmtree(rdir)
    os.makedirs(rdir)
    json.dump(dict(harness=harness, outcome=fail["outcome"], msg=fail["msg"], where=fail["where"], nondet=fail.get("nondet") or [],
                   params=params, decisions=fail.get("decisions"), sched=fail.get("sched"), notes=fail.get("notes"),
                   run=dict(goos=run.get("goos", "linux"), pkg=run.get("pkg", "."), overlays=[os.path.basename(o) for o in overlays])),
              open(os.path.join(rdir, "values.json"), "w"), indent=1)
    ov, err = build(root, repo, rdir, run, overlays)
    if err:
        return dict(status="error", dir=rdir, detail=err)
    out = run_native(repo, rdir, run, race=(fail["outcome"] == "race"))
    status, detail = classify(out, fail)
    if run.get("goos", "linux") == "freebsd" and status == "error":
        # the Linux-compiled port of the kqueue backend did not build/run: report on the engine's evidence
        return dict(status="unavailable", dir=rdir, detail="Linux-compiled kqueue replay unavailable: " + detail[-200:])
    if status != "reproduced" and fail.get("preempted") and fail["outcome"] in ("deadlock", "race", "assert", "panic"):
        # The path needs a pre-emption at a point the native run cannot steer (e.g. just before a
        # lock acquisition). Try a few more times under the Go scheduler; if it still does not show,
        # the counterexample stands on the engine's schedule (recorded in values.json: decisions, sched).
        for attempt in range(2):
            out = run_native(repo, rdir, run, race=(fail["outcome"] == "race"))
            status, detail = classify(out, fail)
            if status == "reproduced":
                break
        if status != "reproduced" and re.search(r"^VERIF-REPLAY: (ok|violation|deadlock|panic)", out, re.M):
            open(os.path.join(rdir, "SCHEDULE-DEPENDENT.txt"), "w").write(
                "The engine's schedule (values.json: decisions/sched) pre-empts a goroutine at a lock acquisition or seam.\n"
                "Three native runs under the Go scheduler did not hit that interleaving; the violation is reported on the\n"
                "engine's execution of the real code alone.\n")
            return dict(status="reproduced", dir=rdir, detail="schedule-dependent: engine schedule only; native runs did not hit the interleaving")
    if fail["outcome"] == "monitor" and status != "reproduced":
        # engine monitors (lock discipline / ownership) have no native counterpart:
        # the native run only has to follow the same path without diverging
        if re.search(r"^VERIF-REPLAY: (ok|violation|panic|deadlock)", out, re.M):
            status, detail = "reproduced", "path replayed natively; monitor verdict is the engine's"
    return dict(status=status if status in ("reproduced",) else "mismatch", dir=rdir, detail=detail)


def rerun(rdir):
    """./check <id> --replay <dir>: re-run a stored counterexample against /repo now."""
    vals = json.load(open(os.path.join(rdir, "values.json")))
    root = os.path.dirname(os.path.abspath(__file__))
    repo = os.environ.get("VERIF_REPO", "/repo")
    run = vals.get("run")
    if not run:
        print("no native replay stored for this counterexample; values:", os.path.join(rdir, "values.json"))
        return 3
    overlays = [os.path.join(root, "harness", o) for o in run["overlays"]]
    ov, err = build(root, repo, rdir, run, overlays)
    if err:
        print(err)
        return 3
    out = run_native(repo, rdir, run, race=(vals["outcome"] == "race"))
    status, detail = classify(out, vals)
    print("replay:", status, "-", detail)
    return 1 if status == "reproduced" else 0


def witness_replays(root, repo, pid, run, harness, samples, params, overlays, limit):
    """Replay solver-produced witness vectors of complete (passing) paths natively:
    the native run with the same inputs must also finish without a violation.
    Returns (agreed, mismatches[list of str])."""
    if run.get("goos", "linux") not in ("linux", "freebsd") or run.get("no_replay"):
        return 0, []
    vecs = [s_ for s_ in samples if s_.get("nondet")][:limit]
    if not vecs:
        return 0, []
    rdir = os.path.join(root, "replays", pid, "witness-%s" % harness)
    if os.path.exists(rdir):
        shutil.rmtree(rdir)
    os.makedirs(rdir)
    ov, err = build(root, repo, rdir, run, overlays)
    if err:
        return 0, ["witness replay build failed: " + err]
    agreed, bad = 0, []
    for i, v in enumerate(vecs):
        json.dump(dict(harness=harness, outcome="ok", msg="", where="", nondet=v["nondet"], params=params,
                       run=dict(goos="linux", pkg=run.get("pkg", "."), overlays=[os.path.basename(o) for o in overlays])),
                  open(os.path.join(rdir, "values.json"), "w"))
        out = run_native(repo, rdir, run)
        m = re.search(r"^VERIF-REPLAY: (\w+)(?:: (.*))?$", out, re.M)
        if m and m.group(1) == "ok":
            agreed += 1
        else:
            bad.append("%s witness %d: engine path passes, native says %s" % (harness, i, (m.group(0) if m else out[-300:])))
            shutil.copy(os.path.join(rdir, "values.json"), os.path.join(rdir, "values-mismatch-%d.json" % i))
    if not bad:
        shutil.rmtree(rdir)
    return agreed, bad
