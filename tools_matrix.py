#!/usr/bin/env python3
"""Write seeded/MATRIX.md: which check caught which seeded change."""
import json, os
R = "/verif/seeded"
rows = []
for d in sorted(os.listdir(R)):
    p = os.path.join(R, d, "meta.json")
    if not os.path.exists(p):
        continue
    m = json.load(open(p))
    caught = [c for c, r in (m.get("checks") or {}).items() if r["rc"] == 1]
    missed = [c for c, r in (m.get("checks") or {}).items() if r["rc"] != 1]
    by = []
    for c in caught:
        for l in m["checks"][c]["lines"]:
            if l.strip().startswith("harness="):
                by.append(c + ":" + l.strip().split()[0].split("=")[1])
                break
    rows.append((d, m.get("property", "?"), "yes" if m.get("confirmed") else "NO", ", ".join(sorted(set(by))) or "-", ", ".join(missed) or "-",
                 (m.get("summary") or "").replace("\n", " ").replace("|", "/")[:170]))
with open(os.path.join(R, "MATRIX.md"), "w") as f:
    f.write("| seed | property | confirmed | caught by (check:harness) | checks run that did not flag it | change |\n|---|---|---|---|---|---|\n")
    for r in rows:
        f.write("| " + " | ".join(r) + " |\n")
# per-property summary
from collections import defaultdict
per = defaultdict(lambda: [0, 0, 0, 0])
for r in rows:
    prop = r[1] if r[1] != "?" else r[0].split("-")[0]
    prop = r[0].split("-")[0]
    per[prop][0] += 1
    own = any(x.startswith(prop + ":") for x in r[3].split(", "))
    if own:
        per[prop][1] += 1
    elif r[3] != "-":
        per[prop][2] += 1
    else:
        per[prop][3] += 1
with open(os.path.join(R, "SUMMARY.md"), "w") as f:
    f.write("| property | seeded changes | caught by its own check | caught only by another property's check | not caught |\n|---|---|---|---|---|\n")
    for p in sorted(per):
        f.write("| %s | %d | %d | %d | %d |\n" % (p, *per[p]))
    f.write("| total | %d | %d | %d | %d |\n" % tuple(sum(v[i] for v in per.values()) for i in range(4)))
print(len(rows), "rows;", sum(1 for r in rows if r[3] != "-"), "caught")
