#!/usr/bin/env python3
"""tools_reseed.py [-j N] <seed ids or property ids...>
Dev helper: re-run the owning property's quick check against already confirmed
seeded changes (scratch worktree per seed, removed afterwards) and print
rc per seed. Does not rewrite meta.json unless --update is given."""
import json, os, subprocess, sys, concurrent.futures as cf
ENV = dict(os.environ, GOFLAGS="-mod=mod", GOPROXY="off", GOSUMDB="off", GOTOOLCHAIN="local")
def sh(cmd, timeout=2400):
    r = subprocess.run(cmd, shell=True, env=ENV, capture_output=True, text=True, timeout=timeout)
    return r.returncode, r.stdout + r.stderr
def one(sid):
    d = os.path.join("/verif/seeded", sid)
    meta = json.load(open(os.path.join(d, "meta.json")))
    props = EXTRA or sorted(meta.get("checks", {}).keys()) or [meta["property"]]
    wt = "/tmp/reseed-" + sid
    sh("git -C /repo worktree remove --force %s; rm -rf %s" % (wt, wt))
    sh("git -C /repo worktree add -q --detach %s HEAD" % wt)
    res = {}
    try:
        rc, out = sh("git -C %s apply %s/patch.diff" % (wt, d))
        if rc != 0:
            return sid, {"apply": rc}, meta
        for c in props:
            rc, out = sh("VERIF_REPO=%s VERIF_EVIDENCE_DIR=/tmp/reseed-ev-%s timeout 1500 ./check %s" % (wt, sid, c), timeout=1600)
            lines = [l for l in out.splitlines() if l.startswith(("VIOLATION", "KNOWN-FINDING", "INCONCLUSIVE", "  harness="))][:6]
            res[c] = {"rc": rc, "lines": lines}
    finally:
        sh("git -C /repo worktree remove --force %s; rm -rf %s /tmp/reseed-ev-%s" % (wt, wt, sid))
    return sid, res, meta
EXTRA = []
def main():
    args = sys.argv[1:]
    for a in list(args):
        if a.startswith("--checks="):
            EXTRA.extend(a[9:].split(",")); args.remove(a)
    j = 3
    update = "--update" in args
    args = [a for a in args if a != "--update"]
    if args and args[0] == "-j":
        j = int(args[1]); args = args[2:]
    allseeds = sorted(x for x in os.listdir("/verif/seeded") if os.path.isdir(os.path.join("/verif/seeded", x)))
    sel = [s for s in allseeds if not args or s in args or s.split("-")[0] in args]
    with cf.ThreadPoolExecutor(j) as ex:
        for sid, res, meta in ex.map(one, sel):
            was = meta.get("detected")
            now = any(isinstance(r, dict) and r.get("rc") == 1 for r in res.values())
            print(sid, "was", was, "now", now, {c: (r.get("rc") if isinstance(r, dict) else r) for c, r in res.items()}, flush=True)
            if update and res and "apply" not in res:
                meta.setdefault("checks", {}).update(res); meta["detected"] = any(isinstance(r, dict) and r.get("rc") == 1 for r in meta["checks"].values())
                json.dump(meta, open(os.path.join("/verif/seeded", sid, "meta.json"), "w"), indent=1)
main()
