#!/bin/sh
# Build the engine offline from the module cache.
set -e
cd "$(dirname "$0")/gosym"
export GOFLAGS=-mod=mod GOPROXY=off GOSUMDB=off GOTOOLCHAIN=local
mkdir -p ../bin
go build -o ../bin/gosym .
