#!/bin/sh
# Runs the real-kernel reproductions against /repo's HEAD (expected: pass) and
# against the pinned pre-fix commit in a scratch worktree (expected: fail).
set -u
export GOFLAGS=-mod=mod GOPROXY=off GOSUMDB=off GOTOOLCHAIN=local
HERE=$(cd "$(dirname "$0")" && pwd)
run() { # $1 = tree
  ov=$(mktemp)
  printf '{"Replace":{"%s/zz_repro_test.go":"%s/repro_test.go.txt"}}' "$1" "$HERE" > "$ov"
  (cd "$1" && go test -vet=off -count=1 -overlay "$ov" -run 'TestRepro' . 2>&1 | grep -E '^(--- |ok|FAIL|\s+\S+_test.go)' )
  rm -f "$ov"
}
echo "== /repo HEAD (with fix: commits) =="; run /repo
WT=$(mktemp -d /tmp/repro-wt.XXXX); rmdir "$WT"
git -C /repo worktree add -q --detach "$WT" 3216ed4
echo "== pinned commit 3216ed4 (before the fixes) =="; run "$WT"
git -C /repo worktree remove --force "$WT"; rm -rf "$WT"
