package main

import (
	"fmt"
	"go/types"

	"golang.org/x/tools/go/ssa"
)

func (ex *Exec) keyEq(a, b Value) *Term { return ex.valueEq(a, b) }

// findEntry resolves key k in m; returns the live entry index or -1.
// With symbolic keys it forks over "which entry (or none) is equal".
func (ex *Exec) findEntry(m *MapObj, k Value) int {
	var live []int
	var conds []*Term
	allConst := true
	for i, e := range m.Entries {
		if e.Deleted {
			continue
		}
		c := ex.keyEq(k, e.K)
		if c.IsTrue() {
			return i
		}
		if c.IsFalse() {
			continue
		}
		allConst = false
		live = append(live, i)
		conds = append(conds, c)
	}
	if allConst {
		return -1
	}
	ts := ex.ts
	guards := make([]*Term, len(live)+1)
	none := ts.True()
	for j, c := range conds {
		guards[j] = c
		none = ts.And(none, ts.Not(c))
	}
	guards[len(live)] = none
	c := ex.chooseGuarded(guards, "map key")
	if c == len(live) {
		return -1
	}
	return live[c]
}

func (ex *Exec) lookup(fr *Frame, in *ssa.Lookup) Value {
	x := ex.get(fr, in.X)
	if s, ok := x.(*StrV); ok {
		idx := ex.toWidth(ex.getT(fr, in.Index), in.Index.Type(), 64)
		return ex.strIndex(s, idx)
	}
	m := x.(*MapV)
	vt := in.X.Type().Underlying().(*types.Map).Elem()
	var val Value
	found := false
	if m.M != nil {
		ex.mapAccess(m.M, false)
		i := ex.findEntry(m.M, ex.get(fr, in.Index))
		if i >= 0 {
			val = m.M.Entries[i].V
			found = true
		}
	}
	if !found {
		val = ex.zero(vt)
	}
	if in.CommaOk {
		return TupleV{val, ex.ts.Bool(found)}
	}
	return val
}

func (ex *Exec) mapUpdate(m *MapObj, k, v Value) {
	if ex.merging > 0 {
		panic(mergeAbort{"map update in arm"})
	}
	ex.mapAccess(m, true)
	i := ex.findEntry(m, k)
	if i >= 0 {
		m.Entries[i].V = v
		return
	}
	m.Entries = append(m.Entries, &mapEntry{K: k, V: v})
}

func (ex *Exec) mapDelete(m *MapObj, k Value) {
	if ex.merging > 0 {
		panic(mergeAbort{"map delete in arm"})
	}
	if m == nil {
		return
	}
	ex.mapAccess(m, true)
	i := ex.findEntry(m, k)
	if i >= 0 {
		m.Entries[i].Deleted = true
		m.Entries = append(m.Entries[:i:i], m.Entries[i+1:]...)
	}
}

func (ex *Exec) mapLen(m *MapObj) int {
	if m == nil {
		return 0
	}
	return len(m.Entries)
}

func (ex *Exec) rangeOp(fr *Frame, in *ssa.Range) Value {
	x := ex.get(fr, in.X)
	switch v := x.(type) {
	case *MapV:
		it := &IterV{M: v.M}
		if v.M != nil {
			ex.mapAccess(v.M, false)
			it.Ents = append(it.Ents, v.M.Entries...)
			// iteration order: Go randomises; the harness may ask for a rotation
			if n := len(it.Ents); n > 1 && ex.cfg.Params["MAPROT"] > 0 {
				r := ex.chooseN(n, "map iteration rotation")
				it.Ents = append(it.Ents[r:], it.Ents[:r]...)
			}
		}
		return it
	case *StrV:
		if !v.Conc {
			ex.unsupported("range over symbolic string")
		}
		return &IterV{Str: v}
	}
	ex.unsupported(fmt.Sprintf("range over %T", x))
	return nil
}

func (ex *Exec) next(fr *Frame, in *ssa.Next) Value {
	it := ex.get(fr, in.Iter).(*IterV)
	ts := ex.ts
	if in.IsString {
		s := it.Str.S
		if it.I >= len(s) {
			return TupleV{ts.False(), ts.BV(0, 64), ts.BV(0, 32)}
		}
		for i, r := range s[it.I:] {
			_ = i
			pos := it.I
			it.I += len(string(r))
			if r == 0xFFFD {
				it.I = pos + 1
			}
			return TupleV{ts.True(), ts.BV(uint64(pos), 64), ts.BV(uint64(r), 32)}
		}
	}
	tt := in.Type().(*types.Tuple)
	for it.I < len(it.Ents) {
		e := it.Ents[it.I]
		it.I++
		if e.Deleted {
			continue
		}
		return TupleV{ts.True(), e.K, e.V}
	}
	var zk, zv Value
	if tt.At(1).Type() != nil {
		if _, ok := tt.At(1).Type().(*types.Basic); !ok || tt.At(1).Type().(*types.Basic).Kind() != types.Invalid {
			zk = ex.zeroOrNil(tt.At(1).Type())
		}
	}
	zv = ex.zeroOrNil(tt.At(2).Type())
	return TupleV{ts.False(), zk, zv}
}

func (ex *Exec) zeroOrNil(t types.Type) Value {
	if b, ok := t.(*types.Basic); ok && b.Kind() == types.Invalid {
		return nil
	}
	return ex.zero(t)
}
