package main

// One persistent solver process (z3 -in) per worker. Terms are emitted once per
// session as (define-fun tN () Sort expr), so output is linear in DAG size.

import (
	"bufio"
	"fmt"
	"io"
	"os"
	"os/exec"
	"strconv"
	"strings"
	"time"
)

type Solver struct {
	cmd     *exec.Cmd
	in      io.WriteCloser
	out     *bufio.Reader
	emitted map[int]string // term id -> smt name/expr
	Log     io.Writer      // optional transcript
	Queries int
	NSat    int
	NUnsat  int
	NUnk    int
	Time    time.Duration
	Timeout int // ms per query
	bin     string
	args    []string
	buf     strings.Builder
	Errors  []string
	inScope bool  // inside a kept (push) scope: definitions made now die at Pop
	scoped  []int // term ids emitted inside the kept scope
}

func NewSolver(bin string, args []string, timeoutMs int) (*Solver, error) {
	s := &Solver{bin: bin, args: args, Timeout: timeoutMs}
	if err := s.start(); err != nil {
		return nil, err
	}
	return s, nil
}

func (s *Solver) start() error {
	s.cmd = exec.Command(s.bin, s.args...)
	in, err := s.cmd.StdinPipe()
	if err != nil {
		return err
	}
	out, err := s.cmd.StdoutPipe()
	if err != nil {
		return err
	}
	s.cmd.Stderr = os.Stderr
	if err := s.cmd.Start(); err != nil {
		return err
	}
	s.in = in
	s.out = bufio.NewReaderSize(out, 1<<20)
	s.emitted = map[int]string{}
	s.preamble()
	return nil
}

func (s *Solver) preamble() {
	s.send("(set-option :print-success false)\n")
	s.send("(set-option :produce-models true)\n")
	if s.Timeout > 0 && strings.Contains(s.bin, "z3") {
		s.send(fmt.Sprintf("(set-option :timeout %d)\n", s.Timeout))
	}
}

func (s *Solver) Close() {
	if s.cmd != nil {
		s.in.Close()
		s.cmd.Process.Kill()
		s.cmd.Wait()
		s.cmd = nil
	}
}

func (s *Solver) send(txt string) {
	if s.Log != nil {
		io.WriteString(s.Log, txt)
	}
	io.WriteString(s.in, txt)
}

// Reset starts a fresh session (new path).
func (s *Solver) Reset() {
	s.send("(reset)\n")
	s.emitted = map[int]string{}
	s.preamble()
}

// ref returns the SMT text naming t, emitting definitions as needed into s.buf.
func (s *Solver) ref(t *Term) string {
	if n, ok := s.emitted[t.ID]; ok {
		return n
	}
	var r string
	switch t.Op {
	case OConst:
		r = constStr(t)
		s.emitted[t.ID] = r
		return r
	case OSym:
		r = symStr(t.Name)
		fmt.Fprintf(&s.buf, "(declare-fun %s () %s)\n", r, t.S)
		s.emitted[t.ID] = r
		if s.inScope {
			s.scoped = append(s.scoped, t.ID)
		}
		return r
	case OConstArr:
		r = fmt.Sprintf("((as const (Array (_ BitVec 32) (_ BitVec 8))) #x%02x)", t.Val)
	case OExtract:
		r = fmt.Sprintf("((_ extract %d %d) %s)", t.I1, t.I2, s.ref(t.Args[0]))
	case OZext:
		r = fmt.Sprintf("((_ zero_extend %d) %s)", t.I1, s.ref(t.Args[0]))
	case OSext:
		r = fmt.Sprintf("((_ sign_extend %d) %s)", t.I1, s.ref(t.Args[0]))
	case OSelect:
		if t.Args[0].Op == OSym && t.Args[1].IsConst() {
			// inline: needs no definition (usable inside a kept scope)
			return "(select " + s.ref(t.Args[0]) + " " + constStr(t.Args[1]) + ")"
		}
		fallthrough
	default:
		refs := make([]string, len(t.Args))
		for i, a := range t.Args {
			refs[i] = s.ref(a)
		}
		r = "(" + opName[t.Op] + " " + strings.Join(refs, " ") + ")"
	}
	// A named constant constrained by an equation (definitional extension).
	// NOT define-fun: z3 expands those as macros, which turns the DAG into a tree.
	name := "t" + strconv.Itoa(t.ID)
	fmt.Fprintf(&s.buf, "(declare-fun %s () %s)\n(assert (= %s %s))\n", name, t.S, name, r)
	s.emitted[t.ID] = name
	if s.inScope {
		s.scoped = append(s.scoped, t.ID)
	}
	return name
}

func (s *Solver) flushDefs() {
	if s.buf.Len() > 0 {
		s.send(s.buf.String())
		s.buf.Reset()
	}
}

// Assert adds t permanently to the current session.
func (s *Solver) Assert(t *Term) {
	r := s.ref(t)
	s.flushDefs()
	s.send("(assert " + r + ")\n")
}

type SatResult int

const (
	Unsat SatResult = iota
	Sat
	Unknown
)

func (r SatResult) String() string { return [...]string{"unsat", "sat", "unknown"}[r] }

func (s *Solver) readLine() string {
	line, err := s.out.ReadString('\n')
	if err != nil {
		s.Errors = append(s.Errors, "solver died: "+err.Error())
		return "(error \"solver died\")"
	}
	return strings.TrimSpace(line)
}

// Check decides sat(asserted ∧ extra...). keep=true leaves the push scope open
// (for GetValues); caller must call Pop afterwards.
func (s *Solver) Check(keep bool, extra ...*Term) SatResult {
	refs := make([]string, len(extra))
	for i, e := range extra {
		refs[i] = s.ref(e)
	}
	s.flushDefs()
	var sb strings.Builder
	sb.WriteString("(push)\n")
	for _, r := range refs {
		sb.WriteString("(assert " + r + ")\n")
	}
	sb.WriteString("(check-sat)\n")
	if !keep {
		sb.WriteString("(pop)\n")
	} else {
		s.inScope = true
	}
	t0 := time.Now()
	s.send(sb.String())
	var res SatResult
	for {
		line := s.readLine()
		if s.Log != nil {
			fmt.Fprintf(s.Log, "; -> %s  (%.3fs)\n", line, time.Since(t0).Seconds())
		}
		if line == "sat" {
			res = Sat
			break
		} else if line == "unsat" {
			res = Unsat
			break
		} else if line == "unknown" || line == "timeout" {
			res = Unknown
			break
		} else if strings.HasPrefix(line, "(error") {
			s.Errors = append(s.Errors, line)
			res = Unknown
			if strings.Contains(line, "solver died") {
				break
			}
			// keep reading for the verdict line
			continue
		}
	}
	s.Time += time.Since(t0)
	s.Queries++
	switch res {
	case Sat:
		s.NSat++
	case Unsat:
		s.NUnsat++
	default:
		s.NUnk++
	}
	return res
}

func (s *Solver) Pop() {
	s.send("(pop)\n")
	for _, id := range s.scoped {
		delete(s.emitted, id)
	}
	s.scoped = nil
	s.inScope = false
}

// GetValues evaluates terms in the current model (after Check(keep=true) == Sat).
func (s *Solver) GetValues(ts []*Term) []uint64 {
	out := make([]uint64, len(ts))
	const batch = 512
	for lo := 0; lo < len(ts); lo += batch {
		hi := lo + batch
		if hi > len(ts) {
			hi = len(ts)
		}
		refs := make([]string, hi-lo)
		for i, t := range ts[lo:hi] {
			refs[i] = s.ref(t)
		}
		if s.buf.Len() > 0 {
			s.Errors = append(s.Errors, "internal: GetValues on terms not prepared before Check")
			s.flushDefs()
		}
		s.send("(get-value (" + strings.Join(refs, " ") + "))\n")
		txt := s.readSexp()
		vals := parseValues(txt)
		for i := range refs {
			if i < len(vals) {
				out[lo+i] = vals[i]
			}
		}
	}
	return out
}

// Prepare emits the definitions of ts at the current level so that a later
// GetValues inside a kept scope needs no new definitions.
func (s *Solver) Prepare(ts []*Term) {
	for _, t := range ts {
		s.ref(t)
	}
	s.flushDefs()
}

func (s *Solver) readSexp() string {
	var sb strings.Builder
	depth := 0
	started := false
	for {
		c, err := s.out.ReadByte()
		if err != nil {
			s.Errors = append(s.Errors, "solver died in get-value")
			return sb.String()
		}
		sb.WriteByte(c)
		if c == '(' {
			depth++
			started = true
		} else if c == ')' {
			depth--
		}
		if started && depth == 0 {
			return sb.String()
		}
	}
}

// parseValues parses ((name val) (name val) ...) where val is #x.., #b.., true, false.
func parseValues(txt string) []uint64 {
	var vals []uint64
	// tokens: walk pairs at depth 2
	depth := 0
	i := 0
	n := len(txt)
	for i < n {
		c := txt[i]
		switch c {
		case '(':
			depth++
			i++
			if depth == 2 {
				// parse pair: skip the key expression (may contain parens or |..|)
				j := i
				j = skipExpr(txt, j)
				// skip spaces
				for j < n && (txt[j] == ' ' || txt[j] == '\n') {
					j++
				}
				k := skipExpr(txt, j)
				vals = append(vals, parseConst(txt[j:k]))
				i = k
			}
		case ')':
			depth--
			i++
		default:
			i++
		}
	}
	return vals
}

func skipExpr(txt string, j int) int {
	n := len(txt)
	for j < n && (txt[j] == ' ' || txt[j] == '\n') {
		j++
	}
	if j >= n {
		return j
	}
	if txt[j] == '|' {
		j++
		for j < n && txt[j] != '|' {
			j++
		}
		return j + 1
	}
	if txt[j] == '(' {
		d := 0
		for j < n {
			if txt[j] == '(' {
				d++
			} else if txt[j] == ')' {
				d--
				if d == 0 {
					return j + 1
				}
			} else if txt[j] == '|' {
				j++
				for j < n && txt[j] != '|' {
					j++
				}
			}
			j++
		}
		return j
	}
	for j < n && txt[j] != ' ' && txt[j] != ')' && txt[j] != '\n' {
		j++
	}
	return j
}

func parseConst(s string) uint64 {
	s = strings.TrimSpace(s)
	switch {
	case s == "true":
		return 1
	case s == "false":
		return 0
	case strings.HasPrefix(s, "#x"):
		v, _ := strconv.ParseUint(s[2:], 16, 64)
		return v
	case strings.HasPrefix(s, "#b"):
		v, _ := strconv.ParseUint(s[2:], 2, 64)
		return v
	case strings.HasPrefix(s, "(_ bv"):
		f := strings.Fields(s[5:])
		v, _ := strconv.ParseUint(f[0], 10, 64)
		return v
	}
	return 0
}
