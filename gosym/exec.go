package main

import (
	"fmt"
	"go/types"
	"sort"
	"strings"

	"golang.org/x/tools/go/ssa"
)

// Outcome of one explored path.
type Outcome string

const (
	OutOK          Outcome = "ok"
	OutInfeasible  Outcome = "infeasible" // assumption made the path condition unsat
	OutAssert      Outcome = "assert"     // verifAssert can fail (solver model)
	OutPanic       Outcome = "panic"      // Go run-time panic reachable
	OutDeadlock    Outcome = "deadlock"
	OutRace        Outcome = "race"
	OutMonitor     Outcome = "monitor" // engine monitor violated
	OutUnwind      Outcome = "unwind"  // loop bound exceeded on a feasible path
	OutBound       Outcome = "bound"   // size cap exceeded on a feasible path
	OutUnsupported Outcome = "unsupported"
	OutUnknown     Outcome = "unknown" // solver unknown on an obligation
	OutBudget      Outcome = "budget"
)

type pathEnd struct {
	out Outcome
	msg string
}

type mergeAbort struct{ why string }

type NondetRec struct {
	Kind string  `json:"kind"` // u8,u32,u64,int,bool,choose,havoc
	Tag  string  `json:"tag"`
	Val  uint64  `json:"val"`
	Arr  []uint8 `json:"arr,omitempty"`
	t    *Term
	tArr *Term
	cell *Cell
	n    int
}

type PathResult struct {
	Decisions []int             `json:"decisions"`
	Outcome   Outcome           `json:"outcome"`
	Msg       string            `json:"msg"`
	Where     string            `json:"where"`
	Instrs    int               `json:"instrs"`
	Forks     int               `json:"-"`
	Merges    int               `json:"-"`
	Oblig     int               `json:"-"` // assertions discharged by the solver (unsat)
	ObligTriv int               `json:"-"` // assertions concretely true
	Reach     map[string]bool   `json:"-"`
	Nondet    []NondetRec       `json:"nondet"`
	Sched     []int             `json:"sched,omitempty"`
	NewWork   [][]int           `json:"-"`
	FnInstr   map[string]int    `json:"-"`
	Events    []string          `json:"notes,omitempty"`
	Sampled   bool              `json:"-"`
	Preempted bool              `json:"preempted,omitempty"`
}

type Config struct {
	Prog       *ssa.Program
	Pkg        *ssa.Package
	Harness    *ssa.Function
	Params     map[string]int
	Seams      map[string]string
	Unwind     int
	StrCap     int
	MaxInstr   int
	Preempt    int
	NoMerge    bool
	TraceOn    bool
	Races      bool
	Monitors   map[string]bool
	ModulePath string
	DumpDir    string
	Publish    func([]int)
	NeedSample func() bool
	Witnessed  func(string) bool
}

type Exec struct {
	cfg *Config
	ts  *TermStore
	sol *Solver
	pc  []*Term

	prefix    []int
	didx      int
	decisions []int
	newWork   [][]int

	globals  map[*ssa.Global]*Cell
	cellSeq  int
	objSeq   int
	curOwner int

	gs      []*G
	cur     *G
	preempt int

	journals []*journal
	merging  int

	mutexes map[*Cell]*mutexState

	res        *PathResult
	forkCount  map[forkKey]int
	pcChecked  bool
	errSentinel map[string]*IfaceV
	builders   map[*Cell]*StrV
	wrapType   types.Type
	errStrType types.Type
	fnCache    map[string]*ssa.Function
	lastInstr  ssa.Instruction
	chans      []*ChanObj
	openOwner  map[int]bool
	guardCells map[*Cell]*Cell
	guardMaps  map[*MapObj]*Cell
	monitors   map[string]bool
	acc        map[*Cell]*accessRec
	macc       map[*MapObj]*Cell
	facts      map[*Term]bool
	onceDone   map[*Cell]bool
}

type forkKey struct {
	fr *Frame
	at ssa.Instruction
}

func (ex *Exec) end(out Outcome, msg string) {
	panic(pathEnd{out, msg})
}

func (ex *Exec) unsupported(what string) {
	if ex.merging > 0 {
		panic(mergeAbort{"unsupported in arm: " + what})
	}
	ex.end(OutUnsupported, what)
}

// goPanic: a Go run-time panic is reachable on this (feasible) path.
func (ex *Exec) goPanic(msg string) {
	if ex.merging > 0 {
		panic(mergeAbort{"panic in arm"})
	}
	ex.end(OutPanic, msg)
}

func (ex *Exec) where() string {
	if ex.lastInstr == nil {
		return ""
	}
	fn := ex.lastInstr.Parent()
	pos := ex.cfg.Prog.Fset.Position(ex.lastInstr.Pos())
	if !pos.IsValid() && fn != nil {
		pos = ex.cfg.Prog.Fset.Position(fn.Pos())
	}
	name := ""
	if fn != nil {
		name = fn.String()
	}
	return fmt.Sprintf("%s (%s:%d)", name, shortFile(pos.Filename), pos.Line)
}

func shortFile(f string) string {
	if i := strings.LastIndex(f, "/"); i >= 0 {
		return f[i+1:]
	}
	return f
}

// ---- path condition and decisions ----

func (ex *Exec) assume(c *Term) {
	if c.IsTrue() {
		return
	}
	ex.pc = append(ex.pc, c)
	ex.noteFact(c)
	ex.sol.Assert(c)
}

// noteFact records literals known true on this path (syntactic lookup only).
func (ex *Exec) noteFact(c *Term) {
	if ex.facts == nil {
		ex.facts = map[*Term]bool{}
	}
	if c.Op == OAnd {
		ex.noteFact(c.Args[0])
		ex.noteFact(c.Args[1])
		return
	}
	ex.facts[c] = true
	ex.facts[ex.ts.Not(c)] = false
}

// known reports whether c is syntactically decided by the path condition.
func (ex *Exec) known(c *Term) (val, ok bool) {
	v, ok := ex.facts[c]
	return v, ok
}

// takeDecision returns the recorded decision if replaying, else -1.
func (ex *Exec) replaying() bool { return ex.didx < len(ex.prefix) }

func (ex *Exec) record(choice int) {
	ex.decisions = append(ex.decisions, choice)
	ex.didx++
}

// chooseGuarded picks one of the options whose guard is feasible under the
// path condition, forking the others. guards[i]==nil means "true".
func (ex *Exec) chooseGuarded(guards []*Term, what string) int {
	if ex.merging > 0 {
		panic(mergeAbort{"fork in arm: " + what})
	}
	if ex.replaying() {
		c := ex.prefix[ex.didx]
		ex.record(c)
		if guards[c] != nil {
			ex.assume(guards[c])
		}
		return c
	}
	var feas []int
	for i, g := range guards {
		if g == nil || g.IsTrue() {
			feas = append(feas, i)
			continue
		}
		if g.IsFalse() {
			continue
		}
		r := ex.sol.Check(false, g)
		if r != Unsat {
			feas = append(feas, i)
		}
	}
	if len(feas) == 0 {
		// path condition itself is unsatisfiable
		ex.end(OutInfeasible, "no feasible option at "+what)
	}
	base := append([]int(nil), ex.decisions...)
	for _, alt := range feas[1:] {
		w := append(append([]int(nil), base...), alt)
		ex.publish(w)
	}
	if len(feas) > 1 {
		ex.res.Forks++
	}
	c := feas[0]
	ex.record(c)
	if guards[c] != nil {
		ex.assume(guards[c])
	}
	return c
}

// branch decides a symbolic condition, forking when both sides are feasible.
func (ex *Exec) branch(c *Term, what string) bool {
	if c.IsTrue() {
		return true
	}
	if c.IsFalse() {
		return false
	}
	if ex.merging > 0 {
		panic(mergeAbort{"branch in arm: " + what})
	}
	// unwinding check per (frame, site)
	i := ex.chooseGuarded([]*Term{c, ex.ts.Not(c)}, what)
	return i == 0
}

// branchLoop is branch() with the per-site two-sided fork counter used as the
// unwinding bound.
func (ex *Exec) branchAt(c *Term, fr *Frame, at ssa.Instruction) bool {
	if c.IsConst() {
		return c.IsTrue()
	}
	if ex.merging > 0 {
		panic(mergeAbort{"branch in arm"})
	}
	before := ex.res.Forks
	wasReplay := ex.replaying()
	r := ex.branch(c, "if")
	if ex.res.Forks > before || wasReplay {
		k := forkKey{fr, at}
		ex.forkCount[k]++
		if ex.forkCount[k] > ex.cfg.Unwind {
			ex.end(OutUnwind, fmt.Sprintf("more than %d symbolic iterations at %s", ex.cfg.Unwind, ex.where()))
		}
	}
	return r
}

func (ex *Exec) publish(w []int) {
	if ex.cfg.Publish != nil {
		ex.cfg.Publish(w)
		return
	}
	ex.newWork = append(ex.newWork, w)
}

// determine asks the solver which sides of c are feasible under the path
// condition: 0 = only true, 1 = only false, 2 = both. The answer is recorded in
// the decision vector so that replays of a prefix do not ask again.
func (ex *Exec) determine(c *Term) int {
	if ex.replaying() {
		d := ex.prefix[ex.didx]
		ex.record(d)
		return d
	}
	fT := ex.sol.Check(false, c) != Unsat
	fF := ex.sol.Check(false, ex.ts.Not(c)) != Unsat
	d := 2
	switch {
	case fT && !fF:
		d = 0
	case !fT && fF:
		d = 1
	case !fT && !fF:
		ex.end(OutInfeasible, "path condition unsatisfiable at branch")
	}
	ex.record(d)
	return d
}

// forkBoth forks on c when both sides are already known to be feasible.
func (ex *Exec) forkBoth(c *Term) bool {
	if ex.replaying() {
		d := ex.prefix[ex.didx]
		ex.record(d)
		if d == 0 {
			ex.assume(c)
		} else {
			ex.assume(ex.ts.Not(c))
		}
		return d == 0
	}
	base := append([]int(nil), ex.decisions...)
	ex.publish(append(base, 1))
	ex.res.Forks++
	ex.record(0)
	ex.assume(c)
	return true
}

func (ex *Exec) chooseN(n int, what string) int {
	if n == 1 {
		return 0
	}
	g := make([]*Term, n)
	return ex.chooseGuarded(g, what)
}

// mustHold: proof obligation that c holds on this path (else panic-class outcome).
func (ex *Exec) require(c *Term, panicMsg string) {
	if c.IsTrue() {
		return
	}
	if !ex.branch(c, panicMsg) {
		ex.goPanic(panicMsg)
	}
}

// ---- running one path ----

func runPath(cfg *Config, sol *Solver, prefix []int) (res *PathResult) {
	ex := &Exec{cfg: cfg, ts: NewTermStore(), sol: sol, prefix: prefix,
		globals: map[*ssa.Global]*Cell{}, mutexes: map[*Cell]*mutexState{},
		forkCount: map[forkKey]int{}, builders: map[*Cell]*StrV{}, fnCache: map[string]*ssa.Function{},
		preempt: cfg.Preempt, openOwner: map[int]bool{}, guardCells: map[*Cell]*Cell{}, guardMaps: map[*MapObj]*Cell{}, monitors: map[string]bool{}}
	res = &PathResult{Reach: map[string]bool{}, FnInstr: map[string]int{}}
	ex.res = res
	sol.Reset()
	defer func() {
		if r := recover(); r != nil {
			pe, ok := r.(pathEnd)
			if !ok {
				if ma, ok2 := r.(mergeAbort); ok2 {
					pe = pathEnd{OutUnsupported, "merge abort escaped: " + ma.why}
				} else {
					panic(r)
				}
			}
			res.Outcome = pe.out
			res.Msg = pe.msg
			res.Where = ex.where()
		}
		res.Decisions = ex.decisions
		res.NewWork = ex.newWork
		if res.Outcome == OutAssert || res.Outcome == OutPanic || res.Outcome == OutDeadlock || res.Outcome == OutMonitor || res.Outcome == OutRace || res.Outcome == OutUnwind || res.Outcome == OutBound {
			ex.extractModel()
		}
	}()
	ex.initGlobals()
	ex.runInit()
	ex.startMain()
	ex.loop()
	res.Outcome = OutOK
	// witness vectors of complete single-goroutine paths, for native cross-validation
	if cfg.NeedSample != nil && len(ex.gs) == 1 && len(res.Nondet) > 0 && cfg.NeedSample() {
		ex.extractModel()
		res.Sampled = res.Outcome == OutOK
	}
	return res
}

// extractModel fills res.Nondet values from a model of the path condition.
func (ex *Exec) extractModel() {
	ex.sol.Prepare(ex.modelTerms())
	r := ex.sol.Check(true)
	if r != Sat {
		ex.sol.Pop()
		if r == Unsat && ex.res.Outcome != OutAssert {
			// path condition unsat: outcome is spurious
			ex.res.Outcome = OutInfeasible
		} else if r == Unknown {
			ex.res.Msg += " [model: solver unknown]"
		}
		ex.res.Nondet = ex.nondetOut(nil)
		return
	}
	ex.res.Nondet = ex.nondetOut(ex.sol)
	ex.sol.Pop()
}

func (ex *Exec) modelTerms() []*Term {
	var ts []*Term
	for i := range ex.res.Nondet {
		r := &ex.res.Nondet[i]
		if r.t != nil {
			ts = append(ts, r.t)
		}
		if r.Kind == "havoc" {
			ts = append(ts, ex.ts.SelIdx[r.tArr]...)
		}
	}
	return ts
}

func (ex *Exec) nondetOut(sol *Solver) []NondetRec {
	recs := ex.res.Nondet
	if sol == nil {
		return recs
	}
	var ts []*Term
	for i := range recs {
		if recs[i].t != nil {
			ts = append(ts, recs[i].t)
		}
	}
	vals := sol.GetValues(ts)
	k := 0
	for i := range recs {
		if recs[i].t != nil {
			recs[i].Val = vals[k]
			k++
		}
	}
	// havoc arrays: only the bytes the path actually read matter; evaluate the
	// index terms in the model, then the array at those indices
	for i := range recs {
		if recs[i].Kind != "havoc" {
			continue
		}
		idxT := ex.ts.SelIdx[recs[i].tArr]
		idxV := sol.GetValues(idxT)
		seen := map[uint64]bool{}
		var sel []*Term
		var at []uint64
		maxI := uint64(0)
		for _, v := range idxV {
			if seen[v] || v >= uint64(recs[i].n) {
				continue
			}
			seen[v] = true
			at = append(at, v)
			sel = append(sel, ex.ts.Select(recs[i].tArr, ex.ts.BV(v, 32)))
			if v+1 > maxI {
				maxI = v + 1
			}
		}
		vs := sol.GetValues(sel)
		recs[i].Arr = make([]uint8, maxI)
		for j, v := range vs {
			recs[i].Arr[at[j]] = uint8(v)
		}
	}
	return recs
}

func (r *NondetRec) havocArr() *Term { return r.tArr }

// ---- exploration driver ----

type Summary struct {
	Harness    string            `json:"harness"`
	Paths      int               `json:"paths"`
	Outcomes   map[string]int    `json:"outcomes"`
	Instrs     int               `json:"instrs"`
	Forks      int               `json:"forks"`
	Merges     int               `json:"merges"`
	Oblig      int               `json:"obligations_discharged"`
	ObligTriv  int               `json:"obligations_concrete"`
	Queries    int               `json:"solver_queries"`
	Sat        int               `json:"solver_sat"`
	Unsat      int               `json:"solver_unsat"`
	UnknownQ   int               `json:"solver_unknown"`
	SolverSecs float64           `json:"solver_time_s"`
	WallSecs   float64           `json:"wall_s"`
	Reach      []string          `json:"reach_witnessed"`
	FnInstr    map[string]int    `json:"functions_encoded"`
	Failures   []*PathResult     `json:"failures"`
	Samples    []json_any        `json:"samples"`
	SolverErrs []string          `json:"solver_errors"`
	Params     map[string]int    `json:"params"`
	MaxDepth   int               `json:"max_decision_depth"`
	Extra      map[string]string `json:"extra,omitempty"`
}

type json_any = interface{}

func sortedKeys(m map[string]bool) []string {
	var k []string
	for s := range m {
		k = append(k, s)
	}
	sort.Strings(k)
	return k
}
