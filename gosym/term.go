package main

// Hash-consed SMT terms over Bool, (_ BitVec n) (n <= 64) and
// (Array (_ BitVec 32) (_ BitVec 8)), with local simplification so that
// concrete data stays concrete and never reaches the solver.

import (
	"fmt"
	"strings"
)

type SortKind uint8

const (
	SBool SortKind = iota
	SBV
	SArr // (Array (_ BitVec 32) (_ BitVec 8))
)

type Sort struct {
	K SortKind
	W int
}

func (s Sort) String() string {
	switch s.K {
	case SBool:
		return "Bool"
	case SBV:
		return fmt.Sprintf("(_ BitVec %d)", s.W)
	}
	return "(Array (_ BitVec 32) (_ BitVec 8))"
}

type Op uint8

const (
	OConst Op = iota
	OSym
	ONot
	OAnd
	OOr
	OIte
	OEq
	OBvAdd
	OBvSub
	OBvMul
	OBvAnd
	OBvOr
	OBvXor
	OBvNot
	OBvNeg
	OBvShl
	OBvLshr
	OBvAshr
	OBvUdiv
	OBvUrem
	OUlt
	OUle
	OSlt
	OSle
	OConcat
	OExtract // hi=I1 lo=I2
	OZext    // to width W
	OSext
	OSelect
	OStore
	OConstArr // constant array with val byte
)

var opName = map[Op]string{
	ONot: "not", OAnd: "and", OOr: "or", OIte: "ite", OEq: "=",
	OBvAdd: "bvadd", OBvSub: "bvsub", OBvMul: "bvmul", OBvAnd: "bvand", OBvOr: "bvor", OBvXor: "bvxor",
	OBvNot: "bvnot", OBvNeg: "bvneg", OBvShl: "bvshl", OBvLshr: "bvlshr", OBvAshr: "bvashr",
	OBvUdiv: "bvudiv", OBvUrem: "bvurem",
	OUlt: "bvult", OUle: "bvule", OSlt: "bvslt", OSle: "bvsle", OConcat: "concat", OSelect: "select", OStore: "store",
}

type Term struct {
	Op   Op
	S    Sort
	Args []*Term
	Val  uint64 // OConst (bool: 0/1), OConstArr
	Name string // OSym
	I1   int
	I2   int
	ID   int
}

// TermStore hash-conses terms. One store per explored path.
type TermStore struct {
	tab   map[string]*Term
	next  int
	nsyms map[string]int
	Syms  []*Term // in creation order
	// index terms with which each array symbol has been read (for model extraction)
	SelIdx  map[*Term][]*Term
	selSeen map[[2]int]bool
}

func NewTermStore() *TermStore {
	return &TermStore{tab: map[string]*Term{}, nsyms: map[string]int{}}
}

func (ts *TermStore) mk(t Term) *Term {
	var sb strings.Builder
	fmt.Fprintf(&sb, "%d|%d.%d|%d|%s|%d.%d", t.Op, t.S.K, t.S.W, t.Val, t.Name, t.I1, t.I2)
	for _, a := range t.Args {
		fmt.Fprintf(&sb, ",%d", a.ID)
	}
	k := sb.String()
	if x, ok := ts.tab[k]; ok {
		return x
	}
	ts.next++
	t.ID = ts.next
	p := &t
	ts.tab[k] = p
	return p
}

func mask(w int) uint64 {
	if w >= 64 {
		return ^uint64(0)
	}
	return (uint64(1) << uint(w)) - 1
}

func (ts *TermStore) True() *Term  { return ts.mk(Term{Op: OConst, S: Sort{K: SBool}, Val: 1}) }
func (ts *TermStore) False() *Term { return ts.mk(Term{Op: OConst, S: Sort{K: SBool}, Val: 0}) }
func (ts *TermStore) Bool(b bool) *Term {
	if b {
		return ts.True()
	}
	return ts.False()
}
func (ts *TermStore) BV(v uint64, w int) *Term {
	return ts.mk(Term{Op: OConst, S: Sort{K: SBV, W: w}, Val: v & mask(w)})
}

// Sym makes a fresh symbol whose name is tag plus a per-tag sequence number
// (deterministic along an execution path).
func (ts *TermStore) Sym(tag string, s Sort) *Term {
	n := ts.nsyms[tag]
	ts.nsyms[tag] = n + 1
	name := fmt.Sprintf("%s!%d", sanitize(tag), n)
	t := ts.mk(Term{Op: OSym, S: s, Name: name})
	ts.Syms = append(ts.Syms, t)
	return t
}

func sanitize(s string) string {
	var sb strings.Builder
	for _, r := range s {
		if r >= 'a' && r <= 'z' || r >= 'A' && r <= 'Z' || r >= '0' && r <= '9' || r == '_' || r == '.' {
			sb.WriteRune(r)
		} else {
			sb.WriteRune('_')
		}
	}
	if sb.Len() == 0 {
		return "v"
	}
	return sb.String()
}

func (t *Term) IsConst() bool { return t.Op == OConst }
func (t *Term) IsTrue() bool  { return t.Op == OConst && t.S.K == SBool && t.Val == 1 }
func (t *Term) IsFalse() bool { return t.Op == OConst && t.S.K == SBool && t.Val == 0 }

// signed value of a constant
func (t *Term) SVal() int64 {
	w := t.S.W
	v := t.Val
	if w < 64 && v&(uint64(1)<<uint(w-1)) != 0 {
		v |= ^mask(w)
	}
	return int64(v)
}

func (ts *TermStore) Not(a *Term) *Term {
	if a.IsConst() {
		return ts.Bool(a.Val == 0)
	}
	if a.Op == ONot {
		return a.Args[0]
	}
	return ts.mk(Term{Op: ONot, S: Sort{K: SBool}, Args: []*Term{a}})
}

func (ts *TermStore) And(a, b *Term) *Term {
	if a.IsFalse() || b.IsFalse() {
		return ts.False()
	}
	if a.IsTrue() {
		return b
	}
	if b.IsTrue() {
		return a
	}
	if a == b {
		return a
	}
	if ts.Not(a) == b {
		return ts.False()
	}
	return ts.mk(Term{Op: OAnd, S: Sort{K: SBool}, Args: []*Term{a, b}})
}

func (ts *TermStore) Or(a, b *Term) *Term {
	if a.IsTrue() || b.IsTrue() {
		return ts.True()
	}
	if a.IsFalse() {
		return b
	}
	if b.IsFalse() {
		return a
	}
	if a == b {
		return a
	}
	if ts.Not(a) == b {
		return ts.True()
	}
	return ts.mk(Term{Op: OOr, S: Sort{K: SBool}, Args: []*Term{a, b}})
}

func (ts *TermStore) Implies(a, b *Term) *Term { return ts.Or(ts.Not(a), b) }

func (ts *TermStore) Ite(c, a, b *Term) *Term {
	if c.IsTrue() {
		return a
	}
	if c.IsFalse() {
		return b
	}
	if a == b {
		return a
	}
	if a.S.K == SBool {
		if a.IsTrue() && b.IsFalse() {
			return c
		}
		if a.IsFalse() && b.IsTrue() {
			return ts.Not(c)
		}
		if a.IsTrue() {
			return ts.Or(c, b)
		}
		if a.IsFalse() {
			return ts.And(ts.Not(c), b)
		}
		if b.IsTrue() {
			return ts.Or(ts.Not(c), a)
		}
		if b.IsFalse() {
			return ts.And(c, a)
		}
	}
	if c.Op == ONot {
		return ts.mk(Term{Op: OIte, S: a.S, Args: []*Term{c.Args[0], b, a}})
	}
	return ts.mk(Term{Op: OIte, S: a.S, Args: []*Term{c, a, b}})
}

func (ts *TermStore) Eq(a, b *Term) *Term {
	if a.S != b.S {
		panic(fmt.Sprintf("Eq sort mismatch %v %v", a.S, b.S))
	}
	if a == b {
		return ts.True()
	}
	if a.IsConst() && b.IsConst() {
		return ts.Bool(a.Val == b.Val)
	}
	if a.S.K == SBool {
		if a.IsConst() {
			a, b = b, a
		}
		if b.IsTrue() {
			return a
		}
		if b.IsFalse() {
			return ts.Not(a)
		}
	}
	// (= (ite c k1 k2) k) with constants
	if b.IsConst() && a.Op == OIte && a.Args[1].IsConst() && a.Args[2].IsConst() {
		return ts.Ite(a.Args[0], ts.Eq(a.Args[1], b), ts.Eq(a.Args[2], b))
	}
	if a.IsConst() && b.Op == OIte && b.Args[1].IsConst() && b.Args[2].IsConst() {
		return ts.Ite(b.Args[0], ts.Eq(b.Args[1], a), ts.Eq(b.Args[2], a))
	}
	if a.ID > b.ID {
		a, b = b, a
	}
	return ts.mk(Term{Op: OEq, S: Sort{K: SBool}, Args: []*Term{a, b}})
}

func (ts *TermStore) bin(op Op, a, b *Term) *Term {
	if a.S != b.S || a.S.K != SBV {
		panic(fmt.Sprintf("bin %s sort mismatch %v %v", opName[op], a.S, b.S))
	}
	w := a.S.W
	if a.IsConst() && b.IsConst() {
		x, y := a.Val, b.Val
		var r uint64
		switch op {
		case OBvAdd:
			r = x + y
		case OBvSub:
			r = x - y
		case OBvMul:
			r = x * y
		case OBvAnd:
			r = x & y
		case OBvOr:
			r = x | y
		case OBvXor:
			r = x ^ y
		case OBvShl:
			if y >= uint64(w) {
				r = 0
			} else {
				r = x << y
			}
		case OBvLshr:
			if y >= uint64(w) {
				r = 0
			} else {
				r = x >> y
			}
		case OBvAshr:
			sx := a.SVal()
			if y >= uint64(w) {
				y = uint64(w - 1)
			}
			r = uint64(sx >> y)
		case OBvUdiv:
			if y == 0 {
				r = mask(w)
			} else {
				r = x / y
			}
		case OBvUrem:
			if y == 0 {
				r = x
			} else {
				r = x % y
			}
		}
		return ts.BV(r, w)
	}
	switch op {
	case OBvAdd:
		if a.IsConst() {
			a, b = b, a
		}
		if b.IsConst() && b.Val == 0 {
			return a
		}
		// (x + c1) + c2
		if b.IsConst() && a.Op == OBvAdd && a.Args[1].IsConst() {
			return ts.bin(OBvAdd, a.Args[0], ts.BV(a.Args[1].Val+b.Val, w))
		}
	case OBvSub:
		if b.IsConst() && b.Val == 0 {
			return a
		}
		if a == b {
			return ts.BV(0, w)
		}
		if b.IsConst() {
			return ts.bin(OBvAdd, a, ts.BV(-b.Val, w))
		}
	case OBvAnd:
		if a.IsConst() {
			a, b = b, a
		}
		if b.IsConst() && b.Val == 0 {
			return b
		}
		if b.IsConst() && b.Val == mask(w) {
			return a
		}
		if a == b {
			return a
		}
	case OBvOr:
		if a.IsConst() {
			a, b = b, a
		}
		if b.IsConst() && b.Val == 0 {
			return a
		}
		if b.IsConst() && b.Val == mask(w) {
			return b
		}
		if a == b {
			return a
		}
	case OBvXor:
		if a.IsConst() {
			a, b = b, a
		}
		if b.IsConst() && b.Val == 0 {
			return a
		}
		if a == b {
			return ts.BV(0, w)
		}
	case OBvMul:
		if a.IsConst() {
			a, b = b, a
		}
		if b.IsConst() && b.Val == 1 {
			return a
		}
		if b.IsConst() && b.Val == 0 {
			return b
		}
	case OBvShl, OBvLshr, OBvAshr:
		if b.IsConst() && b.Val == 0 {
			return a
		}
	}
	return ts.mk(Term{Op: op, S: a.S, Args: []*Term{a, b}})
}

func (ts *TermStore) Add(a, b *Term) *Term  { return ts.bin(OBvAdd, a, b) }
func (ts *TermStore) Sub(a, b *Term) *Term  { return ts.bin(OBvSub, a, b) }
func (ts *TermStore) Mul(a, b *Term) *Term  { return ts.bin(OBvMul, a, b) }
func (ts *TermStore) BAnd(a, b *Term) *Term { return ts.bin(OBvAnd, a, b) }
func (ts *TermStore) BOr(a, b *Term) *Term  { return ts.bin(OBvOr, a, b) }
func (ts *TermStore) BXor(a, b *Term) *Term { return ts.bin(OBvXor, a, b) }
func (ts *TermStore) Shl(a, b *Term) *Term  { return ts.bin(OBvShl, a, b) }
func (ts *TermStore) Lshr(a, b *Term) *Term { return ts.bin(OBvLshr, a, b) }
func (ts *TermStore) Ashr(a, b *Term) *Term { return ts.bin(OBvAshr, a, b) }
func (ts *TermStore) Udiv(a, b *Term) *Term { return ts.bin(OBvUdiv, a, b) }
func (ts *TermStore) Urem(a, b *Term) *Term { return ts.bin(OBvUrem, a, b) }

func (ts *TermStore) BNot(a *Term) *Term {
	if a.IsConst() {
		return ts.BV(^a.Val, a.S.W)
	}
	return ts.mk(Term{Op: OBvNot, S: a.S, Args: []*Term{a}})
}
func (ts *TermStore) Neg(a *Term) *Term {
	if a.IsConst() {
		return ts.BV(-a.Val, a.S.W)
	}
	return ts.mk(Term{Op: OBvNeg, S: a.S, Args: []*Term{a}})
}

func (ts *TermStore) cmp(op Op, a, b *Term) *Term {
	if a.S != b.S || a.S.K != SBV {
		panic(fmt.Sprintf("cmp %s sort mismatch %v %v", opName[op], a.S, b.S))
	}
	if a.IsConst() && b.IsConst() {
		switch op {
		case OUlt:
			return ts.Bool(a.Val < b.Val)
		case OUle:
			return ts.Bool(a.Val <= b.Val)
		case OSlt:
			return ts.Bool(a.SVal() < b.SVal())
		case OSle:
			return ts.Bool(a.SVal() <= b.SVal())
		}
	}
	if a == b {
		return ts.Bool(op == OUle || op == OSle)
	}
	if op == OUlt && b.IsConst() && b.Val == 0 {
		return ts.False()
	}
	if op == OUle && a.IsConst() && a.Val == 0 {
		return ts.True()
	}
	if op == OUle && b.IsConst() && b.Val == mask(b.S.W) {
		return ts.True()
	}
	// zext(x) < const beyond range
	if (op == OUlt || op == OUle) && b.IsConst() && a.Op == OZext {
		iw := a.Args[0].S.W
		if b.Val > mask(iw) {
			return ts.True()
		}
	}
	return ts.mk(Term{Op: op, S: Sort{K: SBool}, Args: []*Term{a, b}})
}
func (ts *TermStore) Ult(a, b *Term) *Term { return ts.cmp(OUlt, a, b) }
func (ts *TermStore) Ule(a, b *Term) *Term { return ts.cmp(OUle, a, b) }
func (ts *TermStore) Slt(a, b *Term) *Term { return ts.cmp(OSlt, a, b) }
func (ts *TermStore) Sle(a, b *Term) *Term { return ts.cmp(OSle, a, b) }

func (ts *TermStore) Extract(a *Term, hi, lo int) *Term {
	w := hi - lo + 1
	if lo == 0 && w == a.S.W {
		return a
	}
	if a.IsConst() {
		return ts.BV(a.Val>>uint(lo), w)
	}
	if a.Op == OZext || a.Op == OSext {
		in := a.Args[0]
		if hi < in.S.W {
			return ts.Extract(in, hi, lo)
		}
		if a.Op == OZext && lo >= in.S.W {
			return ts.BV(0, w)
		}
	}
	if a.Op == OConcat {
		// args[0] is high part
		loT := a.Args[1]
		hiT := a.Args[0]
		if hi < loT.S.W {
			return ts.Extract(loT, hi, lo)
		}
		if lo >= loT.S.W {
			return ts.Extract(hiT, hi-loT.S.W, lo-loT.S.W)
		}
	}
	if a.Op == OExtract {
		return ts.Extract(a.Args[0], hi+a.I2, lo+a.I2)
	}
	if lo == 0 {
		// low bits of modular arithmetic depend only on low bits of the operands
		switch a.Op {
		case OBvAdd, OBvSub, OBvMul, OBvAnd, OBvOr, OBvXor:
			return ts.bin(a.Op, ts.Extract(a.Args[0], hi, 0), ts.Extract(a.Args[1], hi, 0))
		}
	}
	if a.Op == OIte {
		if (a.Args[1].IsConst() || a.Args[1].Op == OZext) && (a.Args[2].IsConst() || a.Args[2].Op == OZext) {
			return ts.Ite(a.Args[0], ts.Extract(a.Args[1], hi, lo), ts.Extract(a.Args[2], hi, lo))
		}
	}
	return ts.mk(Term{Op: OExtract, S: Sort{K: SBV, W: w}, Args: []*Term{a}, I1: hi, I2: lo})
}

func (ts *TermStore) Concat(hi, lo *Term) *Term {
	w := hi.S.W + lo.S.W
	if hi.IsConst() && lo.IsConst() && w <= 64 {
		return ts.BV(hi.Val<<uint(lo.S.W)|lo.Val, w)
	}
	// concat(extract(x,h,m+1), extract(x,m,l)) -> extract(x,h,l)
	if hi.Op == OExtract && lo.Op == OExtract && hi.Args[0] == lo.Args[0] && hi.I2 == lo.I1+1 {
		return ts.Extract(hi.Args[0], hi.I1, lo.I2)
	}
	if hi.IsConst() && hi.Val == 0 {
		return ts.Zext(lo, w)
	}
	return ts.mk(Term{Op: OConcat, S: Sort{K: SBV, W: w}, Args: []*Term{hi, lo}})
}

func (ts *TermStore) Zext(a *Term, w int) *Term {
	if w == a.S.W {
		return a
	}
	if w < a.S.W {
		return ts.Extract(a, w-1, 0)
	}
	if a.IsConst() {
		return ts.BV(a.Val, w)
	}
	if a.Op == OZext {
		return ts.Zext(a.Args[0], w)
	}
	return ts.mk(Term{Op: OZext, S: Sort{K: SBV, W: w}, Args: []*Term{a}, I1: w - a.S.W})
}

func (ts *TermStore) Sext(a *Term, w int) *Term {
	if w == a.S.W {
		return a
	}
	if w < a.S.W {
		return ts.Extract(a, w-1, 0)
	}
	if a.IsConst() {
		return ts.BV(uint64(a.SVal()), w)
	}
	return ts.mk(Term{Op: OSext, S: Sort{K: SBV, W: w}, Args: []*Term{a}, I1: w - a.S.W})
}

var arrSort = Sort{K: SArr}

func (ts *TermStore) ConstArr(b uint8) *Term {
	return ts.mk(Term{Op: OConstArr, S: arrSort, Val: uint64(b)})
}

func (ts *TermStore) Select(a, i *Term) *Term {
	if i.S.W != 32 {
		panic("select index width")
	}
	for {
		switch a.Op {
		case OConstArr:
			return ts.BV(a.Val, 8)
		case OStore:
			j := a.Args[1]
			if j == i {
				return a.Args[2]
			}
			if j.IsConst() && i.IsConst() {
				a = a.Args[0]
				continue
			}
			// syntactic disequality: (x + c1) vs (x + c2), c1 != c2
			if distinctOffsets(i, j) {
				a = a.Args[0]
				continue
			}
		case OIte:
			// select over ite of arrays: push down
			return ts.Ite(a.Args[0], ts.Select(a.Args[1], i), ts.Select(a.Args[2], i))
		}
		break
	}
	if a.Op == OSym {
		if ts.SelIdx == nil {
			ts.SelIdx = map[*Term][]*Term{}
			ts.selSeen = map[[2]int]bool{}
		}
		k := [2]int{a.ID, i.ID}
		if !ts.selSeen[k] {
			ts.selSeen[k] = true
			ts.SelIdx[a] = append(ts.SelIdx[a], i)
		}
	}
	return ts.mk(Term{Op: OSelect, S: Sort{K: SBV, W: 8}, Args: []*Term{a, i}})
}

func splitOff(t *Term) (*Term, uint64) {
	if t.Op == OBvAdd && t.Args[1].IsConst() {
		return t.Args[0], t.Args[1].Val
	}
	return t, 0
}

func distinctOffsets(i, j *Term) bool {
	bi, ci := splitOff(i)
	bj, cj := splitOff(j)
	return bi == bj && ci != cj
}

func (ts *TermStore) Store(a, i, v *Term) *Term {
	if a.Op == OStore && a.Args[1] == i {
		a = a.Args[0]
	}
	return ts.mk(Term{Op: OStore, S: arrSort, Args: []*Term{a, i, v}})
}

// ---- SMT-LIB printing ----

func constStr(t *Term) string {
	switch t.S.K {
	case SBool:
		if t.Val == 1 {
			return "true"
		}
		return "false"
	case SBV:
		if t.S.W%4 == 0 {
			return fmt.Sprintf("#x%0*x", t.S.W/4, t.Val)
		}
		return fmt.Sprintf("#b%0*b", t.S.W, t.Val)
	}
	panic("constStr")
}

func symStr(name string) string { return "|" + name + "|" }

// String renders the term as a tree (debugging / small terms only).
func (t *Term) String() string {
	switch t.Op {
	case OConst:
		return constStr(t)
	case OSym:
		return t.Name
	case OConstArr:
		return fmt.Sprintf("((as const (Array (_ BitVec 32) (_ BitVec 8))) #x%02x)", t.Val)
	case OExtract:
		return fmt.Sprintf("((_ extract %d %d) %s)", t.I1, t.I2, t.Args[0])
	case OZext:
		return fmt.Sprintf("((_ zero_extend %d) %s)", t.I1, t.Args[0])
	case OSext:
		return fmt.Sprintf("((_ sign_extend %d) %s)", t.I1, t.Args[0])
	}
	var sb strings.Builder
	sb.WriteString("(" + opName[t.Op])
	for _, a := range t.Args {
		sb.WriteString(" " + a.String())
	}
	sb.WriteString(")")
	return sb.String()
}
