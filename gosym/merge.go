package main

// Diamond merging (if-conversion): a symbolic If whose arms rejoin at the
// immediate post-dominator (or the function exit) through "simple" code only
// is executed on both arms and merged with ite, instead of forking.

import (
	"go/types"
	"strings"
	"sync"

	"golang.org/x/tools/go/ssa"
)

type regionInfo struct {
	ok   bool
	join *ssa.BasicBlock // nil => function exit
}

var (
	regionMu    sync.Mutex
	regionCache = map[*ssa.BasicBlock]*regionInfo{}
	simpleFn    = map[*ssa.Function]int{} // 0 unknown, 1 simple, 2 not, 3 in progress
	pdomCache   = map[*ssa.Function]map[*ssa.BasicBlock]*ssa.BasicBlock{}
)

// postDoms computes immediate post-dominators (nil = virtual exit).
func postDoms(fn *ssa.Function) map[*ssa.BasicBlock]*ssa.BasicBlock {
	if m, ok := pdomCache[fn]; ok {
		return m
	}
	n := len(fn.Blocks)
	// node n = virtual exit
	succs := make([][]int, n+1)
	for _, b := range fn.Blocks {
		if len(b.Succs) == 0 {
			succs[b.Index] = []int{n}
		}
		for _, s := range b.Succs {
			succs[b.Index] = append(succs[b.Index], s.Index)
		}
	}
	// iterative set-based post-dominators (functions are small)
	type set = []bool
	full := func() set {
		s := make(set, n+1)
		for i := range s {
			s[i] = true
		}
		return s
	}
	pd := make([]set, n+1)
	for i := 0; i <= n; i++ {
		pd[i] = full()
	}
	pd[n] = make(set, n+1)
	pd[n][n] = true
	changed := true
	for changed {
		changed = false
		for i := n - 1; i >= 0; i-- {
			ns := full()
			if len(succs[i]) == 0 {
				ns = make(set, n+1)
			}
			for _, s := range succs[i] {
				for k := range ns {
					ns[k] = ns[k] && pd[s][k]
				}
			}
			ns[i] = true
			for k := range ns {
				if ns[k] != pd[i][k] {
					changed = true
				}
			}
			pd[i] = ns
		}
	}
	res := map[*ssa.BasicBlock]*ssa.BasicBlock{}
	for _, b := range fn.Blocks {
		i := b.Index
		// immediate: the strict post-dominator that is post-dominated by all other strict ones
		best := -1
		for c := 0; c <= n; c++ {
			if c == i || !pd[i][c] {
				continue
			}
			// c is ipdom if every other strict pdom d of i post-dominates c
			okc := true
			for d := 0; d <= n; d++ {
				if d == i || d == c || !pd[i][d] {
					continue
				}
				if !pd[c][d] {
					okc = false
					break
				}
			}
			if okc {
				best = c
				break
			}
		}
		if best >= 0 && best < n {
			res[b] = fn.Blocks[best]
		} else {
			res[b] = nil
		}
	}
	pdomCache[fn] = res
	return res
}

func (ex *Exec) simpleCallee(cc *ssa.CallCommon) bool {
	if cc.IsInvoke() {
		return false
	}
	switch f := cc.Value.(type) {
	case *ssa.Builtin:
		switch f.Name() {
		case "len", "cap", "min", "max", "ssa:wrapnilchk":
			return true
		}
		return false
	case *ssa.Function:
		if f.Blocks == nil {
			if strings.HasPrefix(f.Name(), "verif") {
				switch f.Name() {
				case "verifImplies", "verifAnd", "verifOr", "verifIte32", "verifIte64", "verifIteInt", "verifStrByte", "verifParam", "verifLoad32", "verifByteAt":
					return true
				}
			}
			return false
		}
		if _, seam := ex.cfg.Seams[f.String()]; seam {
			return false
		}
		if !ex.ownPkg(pkgOf(f)) {
			return false
		}
		return ex.isSimpleFn(f)
	}
	return false
}

func (ex *Exec) simpleInstr(in ssa.Instruction) bool {
	switch x := in.(type) {
	case *ssa.BinOp, *ssa.Store, *ssa.FieldAddr, *ssa.Field, *ssa.Phi, *ssa.If, *ssa.Jump,
		*ssa.ChangeType, *ssa.Extract, *ssa.DebugRef, *ssa.IndexAddr, *ssa.Index, *ssa.Alloc, *ssa.MakeInterface, *ssa.ChangeInterface:
		return true
	case *ssa.UnOp:
		return x.Op.String() != "<-"
	case *ssa.Convert:
		_, ok1 := intWidth(x.Type())
		_, ok2 := intWidth(x.X.Type())
		if ok1 && ok2 {
			return true
		}
		_, p1 := x.Type().Underlying().(*types.Pointer)
		_, p2 := x.X.Type().Underlying().(*types.Pointer)
		return p1 || p2
	case *ssa.Call:
		return ex.simpleCallee(&x.Call)
	case *ssa.Return:
		return true
	case *ssa.RunDefers:
		for _, b := range in.Parent().Blocks {
			for _, i := range b.Instrs {
				if _, ok := i.(*ssa.Defer); ok {
					return false
				}
			}
		}
		return true
	}
	return false
}

func (ex *Exec) isSimpleFn(f *ssa.Function) bool {
	switch simpleFn[f] {
	case 1:
		return true
	case 2, 3:
		return false
	}
	simpleFn[f] = 3
	ok := true
	for _, b := range f.Blocks {
		for _, in := range b.Instrs {
			if !ex.simpleInstr(in) {
				ok = false
			}
		}
	}
	if ok && hasCycle(f.Blocks[0], nil, f) {
		ok = false
	}
	if ok {
		simpleFn[f] = 1
	} else {
		simpleFn[f] = 2
	}
	return ok
}

// hasCycle: any cycle reachable from start without passing stop.
func hasCycle(start, stop *ssa.BasicBlock, f *ssa.Function) bool {
	color := map[*ssa.BasicBlock]int{}
	var dfs func(b *ssa.BasicBlock) bool
	dfs = func(b *ssa.BasicBlock) bool {
		if b == stop {
			return false
		}
		color[b] = 1
		for _, s := range b.Succs {
			if s == stop {
				continue
			}
			if color[s] == 1 {
				return true
			}
			if color[s] == 0 && dfs(s) {
				return true
			}
		}
		color[b] = 2
		return false
	}
	return dfs(start)
}

func (ex *Exec) region(b *ssa.BasicBlock) *regionInfo {
	regionMu.Lock()
	defer regionMu.Unlock()
	if r, ok := regionCache[b]; ok {
		return r
	}
	fn := b.Parent()
	r := &regionInfo{}
	regionCache[b] = r
	join := postDoms(fn)[b]
	r.join = join
	// collect region blocks
	seen := map[*ssa.BasicBlock]bool{}
	var stack []*ssa.BasicBlock
	for _, s := range b.Succs {
		if s != join {
			stack = append(stack, s)
		}
	}
	for len(stack) > 0 {
		x := stack[len(stack)-1]
		stack = stack[:len(stack)-1]
		if seen[x] {
			continue
		}
		if x == b {
			return r // loop back to the branch itself
		}
		seen[x] = true
		for _, s := range x.Succs {
			if s != join && !seen[s] {
				stack = append(stack, s)
			}
		}
	}
	for x := range seen {
		for _, in := range x.Instrs {
			if !ex.simpleInstr(in) {
				return r
			}
			if _, isRet := in.(*ssa.Return); isRet && join != nil {
				return r
			}
		}
	}
	for _, s := range b.Succs {
		if s != join && hasCycle(s, join, fn) {
			return r
		}
	}
	// if joining at exit, the function must have no pending defers semantics
	if join == nil {
		for _, bb := range fn.Blocks {
			for _, in := range bb.Instrs {
				if _, ok := in.(*ssa.Defer); ok {
					return r
				}
			}
		}
	}
	r.ok = true
	return r
}

type armResult struct {
	writes map[*Cell]jentry // cell -> new value (stored in oldV/oldArr fields)
	order  []*Cell
	phis   []Value
	ret    Value
}

// runArm executes from block `from` (entered from `pred`) until the join block
// is reached in frame fr (or fr returns when join == nil).
func (ex *Exec) runArm(g *G, fr *Frame, depth int, from *ssa.BasicBlock, join *ssa.BasicBlock) armResult {
	j := &journal{seen: map[*Cell]bool{}}
	ex.journals = append(ex.journals, j)
	fr.prev = fr.block
	fr.block = from
	fr.ip = 0
	savedCap, savedDone := fr.captureRet, fr.retDone
	if join == nil {
		fr.captureRet = true
		fr.retDone = false
	}
	for {
		if len(g.stack) == depth {
			if join != nil && fr.block == join && fr.ip == 0 {
				break
			}
			if join == nil && fr.retDone {
				break
			}
		}
		ex.step(g)
	}
	var res armResult
	if join != nil {
		// evaluate phis of join for this arm
		idx := -1
		for i, p := range join.Preds {
			if p == fr.prev {
				idx = i
			}
		}
		for _, in := range join.Instrs {
			p, ok := in.(*ssa.Phi)
			if !ok {
				break
			}
			if idx < 0 {
				panic(mergeAbort{"phi pred"})
			}
			res.phis = append(res.phis, ex.get(fr, p.Edges[idx]))
		}
	} else {
		res.ret = fr.retVals
	}
	fr.captureRet, fr.retDone = savedCap, savedDone
	// collect writes and roll back
	ex.journals = ex.journals[:len(ex.journals)-1]
	res.writes = map[*Cell]jentry{}
	for i := len(j.ents) - 1; i >= 0; i-- {
		e := j.ents[i]
		res.writes[e.c] = jentry{c: e.c, oldV: e.c.V, oldArr: e.c.RawArr}
		e.c.V = e.oldV
		e.c.RawArr = e.oldArr
	}
	for _, e := range j.ents {
		res.order = append(res.order, e.c)
	}
	return res
}

func (ex *Exec) tryMerge(g *G, fr *Frame, in *ssa.If, cond *Term) (merged bool) {
	info := ex.region(fr.block)
	if !info.ok {
		return false
	}
	depth := len(g.stack)
	ifBlock := fr.block
	savedPrev, savedIP := fr.prev, fr.ip
	outer := ex.merging == 0
	nj := len(ex.journals)
	instrs0 := ex.res.Instrs
	if outer {
		defer func() {
			if r := recover(); r != nil {
				if _, ok := r.(mergeAbort); !ok {
					panic(r)
				}
				// roll back every journal opened since
				for len(ex.journals) > nj {
					j := ex.journals[len(ex.journals)-1]
					ex.journals = ex.journals[:len(ex.journals)-1]
					for i := len(j.ents) - 1; i >= 0; i-- {
						e := j.ents[i]
						e.c.V = e.oldV
						e.c.RawArr = e.oldArr
					}
				}
				ex.merging = 0
				g.stack = g.stack[:depth]
				fr.block, fr.prev, fr.ip = ifBlock, savedPrev, savedIP
				fr.captureRet, fr.retDone = false, false
				ex.res.Instrs = instrs0
				merged = false
			}
		}()
	}
	ex.merging++
	a1 := ex.runArm(g, fr, depth, ifBlock.Succs[0], info.join)
	fr.block = ifBlock
	a2 := ex.runArm(g, fr, depth, ifBlock.Succs[1], info.join)
	ex.merging--
	ts := ex.ts
	// merge memory
	apply := func(c *Cell, w1, w2 *jentry) {
		v1, r1 := c.V, c.RawArr
		v2, r2 := c.V, c.RawArr
		if w1 != nil {
			v1, r1 = w1.oldV, w1.oldArr
		}
		if w2 != nil {
			v2, r2 = w2.oldV, w2.oldArr
		}
		if c.Raw {
			ex.noteWrite(c)
			c.RawArr = ts.Ite(cond, r1, r2)
			return
		}
		v, ok := ex.iteValue(cond, v1, v2)
		if !ok {
			panic(mergeAbort{"unmergeable values"})
		}
		ex.noteWrite(c)
		c.V = v
	}
	// validate first (no partial application): compute all merged values
	type upd struct {
		c   *Cell
		w1  *jentry
		w2  *jentry
	}
	var upds []upd
	done := map[*Cell]bool{}
	for _, c := range a1.order {
		if done[c] {
			continue
		}
		done[c] = true
		w1 := a1.writes[c]
		var w2p *jentry
		if w2, ok := a2.writes[c]; ok {
			w2p = &w2
		}
		upds = append(upds, upd{c, &w1, w2p})
	}
	for _, c := range a2.order {
		if done[c] {
			continue
		}
		done[c] = true
		w2 := a2.writes[c]
		upds = append(upds, upd{c, nil, &w2})
	}
	// check mergeability before mutating anything
	for _, u := range upds {
		if u.c.Raw {
			continue
		}
		v1, v2 := u.c.V, u.c.V
		if u.w1 != nil {
			v1 = u.w1.oldV
		}
		if u.w2 != nil {
			v2 = u.w2.oldV
		}
		if _, ok := ex.iteValue(cond, v1, v2); !ok {
			panic(mergeAbort{"unmergeable values"})
		}
	}
	var phiVals []Value
	var retVal Value
	if info.join != nil {
		for i := range a1.phis {
			v, ok := ex.iteValue(cond, a1.phis[i], a2.phis[i])
			if !ok {
				panic(mergeAbort{"unmergeable phi"})
			}
			phiVals = append(phiVals, v)
		}
	} else {
		v, ok := ex.iteValue(cond, a1.ret, a2.ret)
		if !ok {
			panic(mergeAbort{"unmergeable return"})
		}
		retVal = v
	}
	for _, u := range upds {
		apply(u.c, u.w1, u.w2)
	}
	ex.res.Merges++
	if info.join != nil {
		fr.block = info.join
		fr.prev = nil
		k := 0
		for _, ji := range info.join.Instrs {
			p, ok := ji.(*ssa.Phi)
			if !ok {
				break
			}
			fr.locals[p] = phiVals[k]
			k++
		}
		fr.ip = k
	} else {
		g.stack = g.stack[:depth]
		ex.finishReturn(g, fr, retVal)
	}
	return true
}
