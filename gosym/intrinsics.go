package main

import (
	"fmt"
	"go/types"

	"golang.org/x/tools/go/ssa"
)

func (ex *Exec) nondet(kind, tag string, w int) *Term {
	var t *Term
	if w == 0 {
		t = ex.ts.Sym(tag, Sort{K: SBool})
	} else {
		t = ex.ts.Sym(tag, Sort{K: SBV, W: w})
	}
	ex.res.Nondet = append(ex.res.Nondet, NondetRec{Kind: kind, Tag: tag, t: t})
	return t
}

func (ex *Exec) tagOf(args []Value, i int) string {
	if i < len(args) {
		if s, ok := args[i].(*StrV); ok && s.Conc {
			return s.S
		}
	}
	return "v"
}

// intrinsic executes a body-less verif* function of the harness package.
func (ex *Exec) intrinsic(g *G, fr *Frame, fn *ssa.Function, args []Value, result ssa.Value) {
	ts := ex.ts
	set := func(v Value) {
		if result != nil && fr != nil {
			fr.locals[result] = v
		}
	}
	noArm := func() {
		if ex.merging > 0 {
			panic(mergeAbort{"intrinsic " + fn.Name() + " in arm"})
		}
	}
	switch fn.Name() {
	case "verifU8":
		noArm()
		set(ex.nondet("u8", ex.tagOf(args, 0), 8))
	case "verifU16":
		noArm()
		set(ex.nondet("u16", ex.tagOf(args, 0), 16))
	case "verifU32":
		noArm()
		set(ex.nondet("u32", ex.tagOf(args, 0), 32))
	case "verifI32":
		noArm()
		set(ex.nondet("i32", ex.tagOf(args, 0), 32))
	case "verifU64":
		noArm()
		set(ex.nondet("u64", ex.tagOf(args, 0), 64))
	case "verifInt":
		noArm()
		set(ex.nondet("int", ex.tagOf(args, 0), 64))
	case "verifBool":
		noArm()
		set(ex.nondet("bool", ex.tagOf(args, 0), 0))
	case "verifChoose":
		noArm()
		n := ex.concInt(args[1].(*Term), "verifChoose n")
		c := ex.chooseN(n, "verifChoose "+ex.tagOf(args, 0))
		ex.res.Nondet = append(ex.res.Nondet, NondetRec{Kind: "choose", Tag: ex.tagOf(args, 0), Val: uint64(c)})
		set(ts.BV(uint64(c), 64))
	case "verifHavoc":
		noArm()
		sl := args[0].(*SliceV)
		if sl.Cell == nil || !sl.Cell.Raw {
			ex.unsupported("verifHavoc on non-byte slice")
		}
		if !(sl.Off.IsConst() && sl.Off.Val == 0) {
			ex.unsupported("verifHavoc on slice with offset")
		}
		a := ex.ts.Sym("havoc", arrSort)
		sl.Cell.RawArr = a
		n := sl.Cell.RawLen
		if lim := ex.cfg.Params["HAVOCDUMP"]; lim > 0 && lim < n {
			n = lim
		}
		ex.res.Nondet = append(ex.res.Nondet, NondetRec{Kind: "havoc", Tag: "havoc", cell: sl.Cell, n: n, tArr: a})
	case "verifAssume":
		noArm()
		c := args[0].(*Term)
		if c.IsFalse() {
			ex.end(OutInfeasible, "assume false")
		}
		if !c.IsTrue() {
			ex.assume(c)
			// while replaying a decision prefix the parent path has already
			// shown this assumption satisfiable under the same path condition
			if !ex.replaying() && ex.sol.Check(false) == Unsat {
				ex.end(OutInfeasible, "assumption unsatisfiable")
			}
		}
	case "verifAssert":
		noArm()
		c := args[0].(*Term)
		msg := ex.tagOf(args, 1)
		ex.assertHolds(c, msg)
	case "verifFail":
		noArm()
		ex.assertHolds(ts.False(), ex.tagOf(args, 0))
	case "verifReach":
		noArm()
		tag := ex.tagOf(args, 0)
		if !ex.res.Reach[tag] && !(ex.cfg.Witnessed != nil && ex.cfg.Witnessed(tag)) {
			if ex.sol.Check(false) == Sat {
				ex.res.Reach[tag] = true
			}
		}
	case "verifImplies":
		set(ts.Implies(args[0].(*Term), args[1].(*Term)))
	case "verifAnd":
		set(ts.And(args[0].(*Term), args[1].(*Term)))
	case "verifOr":
		set(ts.Or(args[0].(*Term), args[1].(*Term)))
	case "verifIte32", "verifIte64", "verifIteInt":
		set(ts.Ite(args[0].(*Term), args[1].(*Term), args[2].(*Term)))
	case "verifParam":
		name := ex.tagOf(args, 0)
		v := ex.cfg.Params[name] // absent parameters read as 0
		set(ts.BV(uint64(int64(v)), 64))
	case "verifYield":
		noArm()
		ex.switchPoint(g)
	case "verifQuiesce":
		noArm()
		ex.park(g, &Wait{kind: wQuiesce})
	case "verifStrByte":
		s := args[0].(*StrV)
		i := ex.concInt(args[1].(*Term), "verifStrByte index")
		b, _ := ex.strBytes(s)
		if i >= 0 && i < len(b) {
			set(b[i])
		} else {
			set(ts.BV(0, 8))
		}
	case "verifByteAt":
		// unchecked byte read (0 beyond the slice natively; harness-side helper)
		sl := args[0].(*SliceV)
		off := args[1].(*Term)
		set(ts.Select(sl.Cell.RawArr, ex.off32(ts.Add(sl.Off, off))))
	case "verifLoad32":
		// little-endian 32-bit load from a byte slice at a (possibly symbolic) offset
		sl := args[0].(*SliceV)
		off := args[1].(*Term)
		ex.require(ts.And(ts.Ule(off, ts.Add(off, ts.BV(4, 64))), ts.Ule(ts.Add(off, ts.BV(4, 64)), sl.Len)), "verifLoad32 out of range")
		set(ex.rawLoad(&PtrV{Cell: sl.Cell, Off: ts.Add(sl.Off, off)}, types.Typ[types.Uint32]))
	case "verifBufString":
		// string made of n bytes of b starting at off (cap: StrCap or constant n)
		sl := args[0].(*SliceV)
		off := args[1].(*Term)
		n := args[2].(*Term)
		capN := ex.cfg.StrCap
		if n.IsConst() {
			capN = int(n.Val)
		}
		bs := make([]*Term, capN)
		for i := 0; i < capN; i++ {
			bs[i] = ts.Select(sl.Cell.RawArr, ex.off32(ts.Add(ts.Add(sl.Off, off), ts.BV(uint64(i), 64))))
		}
		set(ex.normStr(&StrV{B: bs, N: n}))
	case "verifGoroutines":
		n := 0
		for _, o := range ex.gs {
			if o != g && !o.done {
				n++
			}
		}
		set(ts.BV(uint64(n), 64))
	case "verifHeld":
		p := args[0].(*PtrV)
		m, ok := ex.mutexes[p.Cell]
		set(ts.Bool(ok && (m.held || m.readers > 0)))
	case "verifConcrete":
		// verifConcrete(x uint32) bool: is the value concrete on this path (engine introspection)
		t, ok := args[0].(*Term)
		set(ts.Bool(ok && t.IsConst()))
	case "verifNote":
		noArm()
		msg := ex.tagOf(args, 0)
		if len(ex.res.Events) < 200 {
			ex.res.Events = append(ex.res.Events, msg)
		}
	case "verifNoteU":
		noArm()
		if len(ex.res.Events) < 200 {
			ex.res.Events = append(ex.res.Events, ex.tagOf(args, 0)+"="+ex.valString(args[1]))
		}
	case "verifSetOwner":
		ex.curOwner = ex.concInt(args[0].(*Term), "owner")
	case "verifForbidOwner":
		// verifForbidOwner(o int, on bool): accesses to cells allocated under owner o become violations
		o := ex.concInt(args[0].(*Term), "owner")
		ex.openOwner[o] = args[1].(*Term).IsTrue()
	case "verifMonitor":
		// verifMonitor(name string, on bool)
		name := ex.tagOf(args, 0)
		ex.monitors[name] = args[1].(*Term).IsTrue()
	case "verifChanStat":
		// verifChanStat(ch any, what string) int: engine-side channel monitors
		iv := args[0].(*IfaceV)
		cv, _ := iv.V.(*ChanV)
		what := ex.tagOf(args, 1)
		n := 0
		if cv != nil && cv.C != nil {
			switch what {
			case "senders":
				seen := map[int]bool{}
				for _, g := range cv.C.SendLog {
					seen[g] = true
				}
				n = len(seen)
			case "closers":
				n = len(cv.C.CloseBy)
			case "sends":
				n = len(cv.C.SendLog)
			case "closed":
				if cv.C.Closed {
					n = 1
				}
			case "buffered":
				n = len(cv.C.Buf)
			}
		}
		set(ts.BV(uint64(n), 64))
	case "verifGuard":
		// verifGuard(mu *sync.Mutex, p unsafe pointer-ish root cell...) handled by verifGuardCell variants
		ex.unsupported("verifGuard")
	case "verifGuardMap":
		// verifGuardMap(mu *sync.Mutex, m any map): map accessed only with mu held
		p := args[0].(*IfaceV).V.(*PtrV)
		iv := args[1].(*IfaceV)
		if mv, ok := iv.V.(*MapV); ok && mv.M != nil {
			ex.guardMaps[mv.M] = p.Cell
		}
	case "verifGuardPtr":
		// verifGuardPtr(mu *sync.Mutex, p any pointer): cell tree accessed only with mu held
		p := args[0].(*IfaceV).V.(*PtrV)
		iv := args[1].(*IfaceV)
		if pv, ok := iv.V.(*PtrV); ok && pv.Cell != nil {
			ex.guardTree(pv.Cell, p.Cell)
		}
	default:
		ex.unsupported("unknown intrinsic " + fn.Name())
	}
}

func (ex *Exec) guardTree(c *Cell, mu *Cell) {
	ex.guardCells[c] = mu
	for _, k := range c.Kids {
		ex.guardTree(k, mu)
	}
}

// assertHolds discharges a proof obligation with the solver.
func (ex *Exec) assertHolds(c *Term, msg string) {
	if c.IsTrue() {
		ex.res.ObligTriv++
		return
	}
	if ex.replaying() {
		// discharged by the parent path under the same path condition
		ex.assume(c)
		return
	}
	r := ex.sol.Check(false, ex.ts.Not(c))
	switch r {
	case Unsat:
		ex.res.Oblig++
		ex.assume(c)
	case Sat:
		ex.assume(ex.ts.Not(c))
		ex.end(OutAssert, msg)
	default:
		ex.end(OutUnknown, fmt.Sprintf("solver unknown on assertion %q", msg))
	}
}
