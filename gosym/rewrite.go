package main

// gosym rewrite: produce copies of the package's source files in which every
// call to a seam callee (resolved with go/types object identity, not regex) is
// redirected to its harness stub. The native replay compiles these copies with
// `go test -overlay`, so the natively executed program differs from /repo in
// exactly the call sites the symbolic engine redirects.

import (
	"encoding/json"
	"flag"
	"fmt"
	"go/ast"
	"go/types"
	"os"
	"path/filepath"
	"sort"
	"strings"

	"golang.org/x/tools/go/packages"
)

type edit struct {
	pos, end int
	text     string
}

func cmdRewrite(argv []string) int {
	fs := flag.NewFlagSet("rewrite", flag.ExitOnError)
	dir := fs.String("dir", "/repo", "module directory")
	pkgPat := fs.String("pkg", ".", "package")
	goos := fs.String("goos", "linux", "GOOS")
	seamsFile := fs.String("seams", "", "seams json")
	outdir := fs.String("outdir", "", "output directory")
	fs.Parse(argv)
	b, err := os.ReadFile(*seamsFile)
	if err != nil {
		fmt.Fprintln(os.Stderr, err)
		return 3
	}
	var all map[string]map[string]string
	json.Unmarshal(b, &all)
	seams := all[*goos]
	absDir, _ := filepath.Abs(*dir)
	env := append(os.Environ(), "GOOS="+*goos, "GOARCH=amd64", "CGO_ENABLED=0", "GOFLAGS=-mod=mod", "GOPROXY=off", "GOSUMDB=off", "GOTOOLCHAIN=local")
	cfg := &packages.Config{Mode: packages.NeedName | packages.NeedFiles | packages.NeedCompiledGoFiles | packages.NeedSyntax | packages.NeedTypes | packages.NeedTypesInfo | packages.NeedImports | packages.NeedDeps, Dir: absDir, Env: env}
	pkgs, err := packages.Load(cfg, "./"+*pkgPat)
	if err != nil || len(pkgs) != 1 {
		fmt.Fprintln(os.Stderr, "rewrite: load failed", err)
		return 3
	}
	p := pkgs[0]
	result := map[string]string{}
	for i, f := range p.Syntax {
		fname := p.CompiledGoFiles[i]
		src, err := os.ReadFile(fname)
		if err != nil {
			fmt.Fprintln(os.Stderr, err)
			return 3
		}
		var edits []edit
		base := p.Fset.File(f.Pos()).Base()
		ast.Inspect(f, func(n ast.Node) bool {
			call, ok := n.(*ast.CallExpr)
			if !ok {
				return true
			}
			sel, ok := call.Fun.(*ast.SelectorExpr)
			if !ok {
				return true
			}
			fn, ok := p.TypesInfo.Uses[sel.Sel].(*types.Func)
			if !ok {
				return true
			}
			stub, ok := seams[fn.FullName()]
			if !ok {
				return true
			}
			sig := fn.Type().(*types.Signature)
			if sig.Recv() == nil {
				edits = append(edits, edit{int(sel.Pos()) - base, int(sel.End()) - base, stub})
			} else {
				recv := string(src[int(sel.X.Pos())-base : int(sel.X.End())-base])
				edits = append(edits, edit{int(sel.Pos()) - base, int(sel.End()) - base, stub})
				sep := ", "
				if len(call.Args) == 0 {
					sep = ""
				}
				edits = append(edits, edit{int(call.Lparen) - base + 1, int(call.Lparen) - base + 1, recv + sep})
			}
			return true
		})
		if len(edits) == 0 {
			continue
		}
		sort.Slice(edits, func(a, b int) bool { return edits[a].pos > edits[b].pos })
		out := string(src)
		for _, e := range edits {
			out = out[:e.pos] + e.text + out[e.end:]
		}
		// keep imports used: add blank uses for every import
		var keep strings.Builder
		keep.WriteString("\n// imports kept alive after seam rewriting\n")
		for _, im := range f.Imports {
			path := strings.Trim(im.Path.Value, "\"")
			name := ""
			if im.Name != nil {
				name = im.Name.Name
			} else if ip := p.Imports[path]; ip != nil {
				name = ip.Name
			}
			if name == "_" || name == "." || name == "" {
				continue
			}
			if ip := p.Imports[path]; ip != nil && ip.Types != nil {
				best, bestRank := "", 99
				for _, n := range ip.Types.Scope().Names() {
					o := ip.Types.Scope().Lookup(n)
					if !o.Exported() {
						continue
					}
					rank := 99
					switch x := o.(type) {
					case *types.Const:
						rank = 0
					case *types.Var:
						rank = 1
					case *types.Func:
						if x.Type().(*types.Signature).TypeParams().Len() == 0 {
							rank = 2
						}
					}
					if rank < bestRank {
						best, bestRank = n, rank
					}
				}
				if best != "" {
					fmt.Fprintf(&keep, "var _ = %s.%s\n", name, best)
				}
			}
		}
		out += keep.String()
		dst := filepath.Join(*outdir, filepath.Base(fname))
		if err := os.WriteFile(dst, []byte(out), 0o644); err != nil {
			fmt.Fprintln(os.Stderr, err)
			return 3
		}
		result[fname] = dst
	}
	jb, _ := json.Marshal(result)
	fmt.Println(string(jb))
	return 0
}
