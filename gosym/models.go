package main

import (
	"fmt"
	"go/types"
	"path/filepath"
	"regexp"
	"strconv"
	"strings"

	"golang.org/x/tools/go/ssa"
)

// modelType is an engine-internal dynamic type for modelled error values.
type modelType struct {
	name string
}

func (m *modelType) Underlying() types.Type { return m }
func (m *modelType) String() string         { return "model." + m.name }

var (
	errStringT = &modelType{"errorString"}
	wrapErrT   = &modelType{"wrapError"}
	pathErrT   = &modelType{"pathError"}
)

func (ex *Exec) newError(msg *StrV, wrapped Value) *IfaceV {
	c := ex.newCell(types.Typ[types.String], "err")
	c.V = msg
	if wrapped == nil {
		return &IfaceV{Typ: errStringT, V: &PtrV{Cell: c}}
	}
	w := ex.newCell(types.Typ[types.String], "errwrap")
	w.V = &StructV{F: []Value{msg, wrapped}}
	return &IfaceV{Typ: wrapErrT, V: &PtrV{Cell: w}}
}

func (ex *Exec) modelMethod(name string, args []Value) Value {
	switch name {
	case "errorString.Error":
		return args[0].(*PtrV).Cell.V
	case "wrapError.Error":
		return args[0].(*PtrV).Cell.V.(*StructV).F[0]
	case "wrapError.Unwrap":
		return args[0].(*PtrV).Cell.V.(*StructV).F[1]
	}
	ex.unsupported("model method " + name)
	return nil
}

// errorsIs implements errors.Is over modelled and real error values.
func (ex *Exec) errorsIs(err, target *IfaceV) *Term {
	ts := ex.ts
	if err.Typ == nil || target.Typ == nil {
		return ts.Bool(err.Typ == nil && target.Typ == nil)
	}
	res := ts.False()
	cur := err
	for depth := 0; cur != nil && cur.Typ != nil && depth < 20; depth++ {
		res = ts.Or(res, ex.valueEq(cur, target))
		// syscall.Errno.Is(target): ErrPermission / ErrExist / ErrNotExist
		if n, ok := cur.Typ.(*types.Named); ok && n.Obj().Name() == "Errno" {
			if t, ok := cur.V.(*Term); ok {
				res = ts.Or(res, ex.errnoIs(t, target))
			}
		}
		if cur.Typ == wrapErrT {
			nx, _ := cur.V.(*PtrV).Cell.V.(*StructV).F[1].(*IfaceV)
			cur = nx
			continue
		}
		break
	}
	return res
}

func (ex *Exec) errnoIs(e *Term, target *IfaceV) *Term {
	ts := ex.ts
	which := ""
	for name, iv := range ex.osErrs() {
		if iv.Typ == target.Typ && ex.valueEq(iv, target).IsTrue() {
			which = name
		}
	}
	eq := func(vals ...uint64) *Term {
		r := ts.False()
		for _, v := range vals {
			r = ts.Or(r, ts.Eq(e, ts.BV(v, e.S.W)))
		}
		return r
	}
	switch which {
	case "ErrPermission":
		return eq(13, 1) // EACCES, EPERM
	case "ErrExist":
		return eq(17, 39) // EEXIST, ENOTEMPTY
	case "ErrNotExist":
		return eq(2) // ENOENT
	}
	return ts.False()
}

// osErrs returns the sentinel errors of package os / io / fs as model values.
func (ex *Exec) osErrs() map[string]*IfaceV {
	if ex.errSentinel == nil {
		ex.errSentinel = map[string]*IfaceV{}
		for _, n := range []string{"ErrClosed", "ErrNotExist", "ErrExist", "ErrPermission", "ErrInvalid", "EOF", "ErrDeadlineExceeded", "SkipDir", "SkipAll"} {
			ex.errSentinel[n] = ex.newError(ex.concStr("sentinel "+n), nil)
		}
	}
	return ex.errSentinel
}

func (ex *Exec) initForeignGlobal(g *ssa.Global, c *Cell) {
	full := g.String()
	switch full {
	case "os.ErrClosed", "io/fs.ErrClosed":
		c.V = ex.osErrs()["ErrClosed"]
	case "os.ErrNotExist", "io/fs.ErrNotExist":
		c.V = ex.osErrs()["ErrNotExist"]
	case "os.ErrExist", "io/fs.ErrExist":
		c.V = ex.osErrs()["ErrExist"]
	case "os.ErrPermission", "io/fs.ErrPermission":
		c.V = ex.osErrs()["ErrPermission"]
	case "os.ErrInvalid", "io/fs.ErrInvalid":
		c.V = ex.osErrs()["ErrInvalid"]
	case "io.EOF":
		c.V = ex.osErrs()["EOF"]
	case "io/fs.SkipDir", "path/filepath.SkipDir":
		c.V = ex.osErrs()["SkipDir"]
	case "io/fs.SkipAll", "path/filepath.SkipAll":
		c.V = ex.osErrs()["SkipAll"]
	case "os.Stderr", "os.Stdout":
		// leave nil pointer
	default:
		ex.unsupported("foreign global " + full)
	}
}

func (ex *Exec) cstr(v Value, what string) string {
	s, ok := v.(*StrV)
	if !ok {
		ex.unsupported(what + ": not a string")
	}
	s = ex.normStr(s)
	if !s.Conc {
		ex.unsupported(what + ": symbolic string passed to native function")
	}
	return s.S
}

// model handles foreign functions by engine models or native execution.
func (ex *Exec) model(g *G, fr *Frame, fn *ssa.Function, name string, args []Value, result ssa.Value) (bool, Value) {
	ts := ex.ts
	if fn.Name() == "init" && fn.Signature.Recv() == nil {
		return true, noResult // initialisers of foreign packages are not executed
	}
	switch name {
	// ---- sync ----
	case "(*sync.Mutex).Lock", "(*sync.RWMutex).Lock":
		ex.mutexLock(g, args[0].(*PtrV))
		return true, noResult
	case "(*sync.Mutex).Unlock", "(*sync.RWMutex).Unlock":
		ex.mutexUnlock(g, args[0].(*PtrV))
		return true, noResult
	case "(*sync.RWMutex).RLock":
		ex.mutexRLock(g, args[0].(*PtrV))
		return true, noResult
	case "(*sync.RWMutex).RUnlock":
		ex.mutexRUnlock(g, args[0].(*PtrV))
		return true, noResult
	case "(*sync.WaitGroup).Add":
		d, ok := args[1].(*Term)
		if !ok || !d.IsConst() {
			ex.unsupported("sync.WaitGroup.Add with a symbolic delta")
		}
		ex.wgAdd(g, args[0].(*PtrV), int(d.SVal()))
		return true, noResult
	case "(*sync.WaitGroup).Done":
		ex.wgAdd(g, args[0].(*PtrV), -1)
		return true, noResult
	case "(*sync.WaitGroup).Wait":
		ex.wgWait(g, args[0].(*PtrV))
		return true, noResult
	case "(*sync.Once).Do":
		// model: the first caller runs f (others do not wait for it to finish: approximation)
		oc := args[0].(*PtrV).Cell
		if ex.onceDone == nil {
			ex.onceDone = map[*Cell]bool{}
		}
		if ex.onceDone[oc] {
			return true, noResult
		}
		if ex.merging > 0 {
			panic(mergeAbort{"sync.Once in arm"})
		}
		ex.onceDone[oc] = true
		f := args[1].(*FuncV)
		if f.Fn == nil {
			ex.goPanic("sync.Once.Do(nil)")
		}
		ex.pushFrame(g, f.Fn, nil, f.Binds, nil)
		return true, noResult
	// ---- errors / fmt ----
	case "errors.New":
		return true, ex.newError(args[0].(*StrV), nil)
	case "errors.Is":
		return true, ex.errorsIs(args[0].(*IfaceV), args[1].(*IfaceV))
	case "errors.Unwrap":
		iv := args[0].(*IfaceV)
		if iv.Typ == wrapErrT {
			return true, iv.V.(*PtrV).Cell.V.(*StructV).F[1]
		}
		return true, &IfaceV{}
	case "fmt.Errorf":
		format := ex.cstr(args[0], "Errorf format")
		var wrapped Value
		if strings.Contains(format, "%w") {
			// find the %w operand: count verbs before it
			idx := verbIndex(format, 'w')
			va := args[1].(*SliceV)
			if va.Cell != nil && idx < int(va.Len.Val) {
				wrapped = ex.cellLoad(va.Cell.Kids[int(va.Off.Val)+idx])
			}
		}
		return true, ex.newError(ex.concStr("errorf:"+format), wrapped)
	case "fmt.Sprintf":
		format := ex.cstr(args[0], "Sprintf format")
		va := args[1].(*SliceV)
		var goargs []interface{}
		if va.Cell != nil {
			for i := 0; i < int(va.Len.Val); i++ {
				goargs = append(goargs, ex.toGo(ex.cellLoad(va.Cell.Kids[int(va.Off.Val)+i])))
			}
		}
		return true, ex.concStr(fmt.Sprintf(format, goargs...))
	case "fmt.Fprintf", "fmt.Printf", "fmt.Println", "fmt.Fprintln":
		ex.unsupported("formatting output reached (debug should be false): " + name)
	case "os.Getenv":
		return true, ex.concStr("")
	// ---- strings.Builder ----
	case "(*strings.Builder).WriteString":
		p := args[0].(*PtrV)
		cur := ex.builders[p.Cell]
		if cur == nil {
			cur = ex.concStr("")
		}
		if ex.merging > 0 {
			panic(mergeAbort{"builder in arm"})
		}
		s := args[1].(*StrV)
		ex.builders[p.Cell] = ex.strConcat(cur, s)
		return true, TupleV{ex.strLen(s), &IfaceV{}}
	case "(*strings.Builder).WriteByte":
		p := args[0].(*PtrV)
		cur := ex.builders[p.Cell]
		if cur == nil {
			cur = ex.concStr("")
		}
		if ex.merging > 0 {
			panic(mergeAbort{"builder in arm"})
		}
		b := args[1].(*Term)
		ex.builders[p.Cell] = ex.strConcat(cur, ex.normStr(&StrV{B: []*Term{b}, N: ts.BV(1, 64)}))
		return true, &IfaceV{}
	case "(*strings.Builder).Len":
		cur := ex.builders[args[0].(*PtrV).Cell]
		if cur == nil {
			return true, ts.BV(0, 64)
		}
		return true, ex.strLen(cur)
	case "(*strings.Builder).String":
		cur := ex.builders[args[0].(*PtrV).Cell]
		if cur == nil {
			return true, ex.concStr("")
		}
		return true, cur
	case "(*strings.Builder).Grow", "(*strings.Builder).Reset":
		if name == "(*strings.Builder).Reset" {
			delete(ex.builders, args[0].(*PtrV).Cell)
		}
		return true, noResult
	// ---- strings ----
	case "strings.TrimRight":
		s := ex.normStr(args[0].(*StrV))
		cut := ex.cstr(args[1], "TrimRight cutset")
		if s.Conc {
			return true, ex.concStr(strings.TrimRight(s.S, cut))
		}
		if cut != "\x00" {
			ex.unsupported("TrimRight on symbolic string with cutset other than NUL")
		}
		return true, ex.trimRightNul(s)
	case "strings.HasPrefix":
		a, b := ex.normStr(args[0].(*StrV)), ex.normStr(args[1].(*StrV))
		if a.Conc && b.Conc {
			return true, ts.Bool(strings.HasPrefix(a.S, b.S))
		}
		return true, ex.symHasPrefix(a, b)
	case "strings.HasSuffix":
		return true, ts.Bool(strings.HasSuffix(ex.cstr(args[0], name), ex.cstr(args[1], name)))
	case "strings.Contains":
		return true, ts.Bool(strings.Contains(ex.cstr(args[0], name), ex.cstr(args[1], name)))
	case "strings.ContainsAny":
		return true, ts.Bool(strings.ContainsAny(ex.cstr(args[0], name), ex.cstr(args[1], name)))
	case "strings.ContainsRune":
		return true, ts.Bool(strings.ContainsRune(ex.cstr(args[0], name), rune(ex.concInt(args[1].(*Term), "rune"))))
	case "strings.IndexAny":
		return true, ts.BV(uint64(int64(strings.IndexAny(ex.cstr(args[0], name), ex.cstr(args[1], name)))), 64)
	case "strings.IndexRune":
		return true, ts.BV(uint64(int64(strings.IndexRune(ex.cstr(args[0], name), rune(ex.concInt(args[1].(*Term), "rune"))))), 64)
	case "strings.Replace":
		n := ex.concInt(args[3].(*Term), "Replace n")
		return true, ex.concStr(strings.Replace(ex.cstr(args[0], name), ex.cstr(args[1], name), ex.cstr(args[2], name), n))
	case "strings.ReplaceAll":
		return true, ex.concStr(strings.ReplaceAll(ex.cstr(args[0], name), ex.cstr(args[1], name), ex.cstr(args[2], name)))
	case "strings.TrimSpace":
		return true, ex.concStr(strings.TrimSpace(ex.cstr(args[0], name)))
	case "strings.TrimSuffix":
		return true, ex.concStr(strings.TrimSuffix(ex.cstr(args[0], name), ex.cstr(args[1], name)))
	case "strings.TrimPrefix":
		return true, ex.concStr(strings.TrimPrefix(ex.cstr(args[0], name), ex.cstr(args[1], name)))
	case "strings.Trim":
		return true, ex.concStr(strings.Trim(ex.cstr(args[0], name), ex.cstr(args[1], name)))
	case "strings.TrimLeft":
		return true, ex.concStr(strings.TrimLeft(ex.cstr(args[0], name), ex.cstr(args[1], name)))
	case "strings.Repeat":
		return true, ex.concStr(strings.Repeat(ex.cstr(args[0], name), ex.concInt(args[1].(*Term), "Repeat n")))
	case "strings.Index":
		return true, ts.BV(uint64(int64(strings.Index(ex.cstr(args[0], name), ex.cstr(args[1], name)))), 64)
	case "strings.Count":
		return true, ts.BV(uint64(int64(strings.Count(ex.cstr(args[0], name), ex.cstr(args[1], name)))), 64)
	case "strings.LastIndex":
		return true, ts.BV(uint64(int64(strings.LastIndex(ex.cstr(args[0], name), ex.cstr(args[1], name)))), 64)
	case "strings.IndexByte":
		return true, ts.BV(uint64(int64(strings.IndexByte(ex.cstr(args[0], name), byte(ex.concInt(args[1].(*Term), "byte"))))), 64)
	case "strings.EqualFold":
		return true, ts.Bool(strings.EqualFold(ex.cstr(args[0], name), ex.cstr(args[1], name)))
	case "strings.Compare":
		return true, ts.BV(uint64(int64(strings.Compare(ex.cstr(args[0], name), ex.cstr(args[1], name)))), 64)
	case "strings.ToUpper":
		return true, ex.concStr(strings.ToUpper(ex.cstr(args[0], name)))
	case "strings.Fields":
		return true, ex.strSlice(strings.Fields(ex.cstr(args[0], name)))
	case "strings.TrimFunc", "strings.Map":
		ex.unsupported(name)
	case "path/filepath.Ext":
		return true, ex.concStr(filepath.Ext(ex.cstr(args[0], name)))
	case "path/filepath.ToSlash":
		return true, ex.concStr(filepath.ToSlash(ex.cstr(args[0], name)))
	case "path/filepath.FromSlash":
		return true, ex.concStr(filepath.FromSlash(ex.cstr(args[0], name)))
	case "path/filepath.VolumeName":
		return true, ex.concStr(filepath.VolumeName(ex.cstr(args[0], name)))
	case "path/filepath.Split":
		d, f := filepath.Split(ex.cstr(args[0], name))
		return true, TupleV{ex.concStr(d), ex.concStr(f)}
	case "path/filepath.Rel":
		r, err := filepath.Rel(ex.cstr(args[0], name), ex.cstr(args[1], name))
		if err != nil {
			return true, TupleV{ex.concStr(""), ex.newError(ex.concStr("filepath.Rel: "+err.Error()), nil)}
		}
		return true, TupleV{ex.concStr(r), &IfaceV{}}
	case "strings.ToLower":
		return true, ex.concStr(strings.ToLower(ex.cstr(args[0], name)))
	case "strings.SplitAfter", "strings.Split":
		var parts []string
		if name == "strings.Split" {
			parts = strings.Split(ex.cstr(args[0], name), ex.cstr(args[1], name))
		} else {
			parts = strings.SplitAfter(ex.cstr(args[0], name), ex.cstr(args[1], name))
		}
		return true, ex.strSlice(parts)
	case "strings.Join":
		sl := args[0].(*SliceV)
		sep := args[1].(*StrV)
		out := ex.concStr("")
		if sl.Cell != nil {
			n := ex.concInt(sl.Len, "Join len")
			for i := 0; i < n; i++ {
				if i > 0 {
					out = ex.strConcat(out, sep)
				}
				out = ex.strConcat(out, ex.cellLoad(sl.Cell.Kids[int(sl.Off.Val)+i]).(*StrV))
			}
		}
		return true, out
	// ---- regexp / Replacer / time: executed natively on concrete strings (trusted) ----
	case "regexp.MustCompile", "regexp.Compile":
		pat := ex.cstr(args[0], name)
		if _, err := regexp.Compile(pat); err != nil {
			if name == "regexp.MustCompile" {
				ex.goPanic("regexp: Compile(" + pat + "): " + err.Error())
			}
			return true, TupleV{&PtrV{}, ex.newError(ex.concStr(err.Error()), nil)}
		}
		c := ex.newCell(types.Typ[types.String], "regexp")
		c.V = ex.concStr(pat)
		if name == "regexp.Compile" {
			return true, TupleV{&PtrV{Cell: c}, &IfaceV{}}
		}
		return true, &PtrV{Cell: c}
	case "regexp.QuoteMeta":
		return true, ex.concStr(regexp.QuoteMeta(ex.cstr(args[0], name)))
	case "(*regexp.Regexp).MatchString":
		re := regexp.MustCompile(ex.cstr(args[0].(*PtrV).Cell.V, name))
		return true, ts.Bool(re.MatchString(ex.cstr(args[1], name)))
	case "(*regexp.Regexp).ReplaceAllString":
		re := regexp.MustCompile(ex.cstr(args[0].(*PtrV).Cell.V, name))
		return true, ex.concStr(re.ReplaceAllString(ex.cstr(args[1], name), ex.cstr(args[2], name)))
	case "(*regexp.Regexp).ReplaceAllStringFunc":
		re := regexp.MustCompile(ex.cstr(args[0].(*PtrV).Cell.V, name))
		src := ex.cstr(args[1], name)
		f := args[2].(*FuncV)
		idxs := re.FindAllStringIndex(src, -1)
		var out strings.Builder
		pos, i := 0, 0
		var next func()
		next = func() {
			if i == len(idxs) {
				out.WriteString(src[pos:])
				if result != nil && fr != nil {
					fr.locals[result] = ex.concStr(out.String())
				}
				return
			}
			m := idxs[i]
			out.WriteString(src[pos:m[0]])
			pos = m[1]
			i++
			nf := ex.pushFrame(g, f.Fn, []Value{ex.concStr(src[m[0]:m[1]])}, f.Binds, nil)
			nf.onRet = func(v Value) {
				out.WriteString(ex.cstr(v, "regexp replacement"))
				next()
			}
		}
		next()
		return true, noResult
	case "strings.NewReplacer":
		sl := args[0].(*SliceV)
		var parts []string
		if sl.Cell != nil {
			for k := 0; k < int(sl.Len.Val); k++ {
				parts = append(parts, ex.cstr(ex.cellLoad(sl.Cell.Kids[int(sl.Off.Val)+k]), name))
			}
		}
		c := ex.newCell(types.Typ[types.String], "replacer")
		c.V = ex.concStr(strings.Join(parts, "\x00"))
		return true, &PtrV{Cell: c}
	case "(*strings.Replacer).Replace":
		parts := strings.Split(ex.cstr(args[0].(*PtrV).Cell.V, name), "\x00")
		return true, ex.concStr(strings.NewReplacer(parts...).Replace(ex.cstr(args[1], name)))
	case "time.Now", "(time.Time).UTC":
		// a fixed instant: 2026-10-01 (the date placeholders of DiffMatch are not exercised)
		return true, ex.zero(fn.Signature.Results().At(0).Type())
	case "(time.Time).Year":
		return true, ts.BV(2026, 64)
	case "(time.Time).Month":
		return true, ts.BV(10, 64)
	case "(time.Time).Day":
		return true, ts.BV(1, 64)
	// ---- filepath ----
	case "path/filepath.Clean":
		return true, ex.concStr(filepath.Clean(ex.cstr(args[0], name)))
	case "path/filepath.Dir":
		return true, ex.concStr(filepath.Dir(ex.cstr(args[0], name)))
	case "path/filepath.Base":
		return true, ex.concStr(filepath.Base(ex.cstr(args[0], name)))
	case "path/filepath.IsAbs":
		return true, ts.Bool(filepath.IsAbs(ex.cstr(args[0], name)))
	case "path/filepath.Join":
		sl := args[0].(*SliceV)
		var parts []string
		if sl.Cell != nil {
			for i := 0; i < int(sl.Len.Val); i++ {
				parts = append(parts, ex.cstr(ex.cellLoad(sl.Cell.Kids[int(sl.Off.Val)+i]), name))
			}
		}
		return true, ex.concStr(filepath.Join(parts...))
	case "strconv.Quote":
		return true, ex.concStr(strconv.Quote(ex.cstr(args[0], name)))
	case "strconv.Itoa":
		return true, ex.concStr(strconv.Itoa(ex.concInt(args[0].(*Term), "Itoa")))
	}
	return false, nil
}

func verbIndex(format string, verb byte) int {
	idx := 0
	for i := 0; i < len(format); i++ {
		if format[i] != '%' {
			continue
		}
		i++
		for i < len(format) && strings.IndexByte("+-# 0123456789.", format[i]) >= 0 {
			i++
		}
		if i >= len(format) {
			break
		}
		if format[i] == '%' {
			continue
		}
		if format[i] == verb {
			return idx
		}
		idx++
	}
	return idx
}

func (ex *Exec) strSlice(parts []string) Value {
	c := ex.newArrayCell(types.Typ[types.String], len(parts))
	for i, p := range parts {
		c.Kids[i].V = ex.concStr(p)
	}
	n := ex.ts.BV(uint64(len(parts)), 64)
	return &SliceV{Cell: c, Off: ex.ts.BV(0, 64), Len: n, Cap: n}
}

func (ex *Exec) toGo(v Value) interface{} {
	switch x := v.(type) {
	case *IfaceV:
		if x.Typ == nil {
			return nil
		}
		return ex.toGoTyped(x.V, x.Typ)
	}
	return ex.toGoTyped(v, nil)
}

func (ex *Exec) toGoTyped(v Value, t types.Type) interface{} {
	switch x := v.(type) {
	case *StrV:
		return ex.cstr(x, "format operand")
	case *Term:
		if !x.IsConst() {
			ex.unsupported("symbolic value passed to native formatter")
		}
		if x.S.K == SBool {
			return x.Val == 1
		}
		if t != nil && isSigned(t) {
			return x.SVal()
		}
		return x.Val
	}
	ex.unsupported(fmt.Sprintf("native formatting of %T", v))
	return nil
}

// trimRightNul: strings.TrimRight(s, "\x00") on a bounded symbolic string.
func (ex *Exec) trimRightNul(s *StrV) Value {
	ts := ex.ts
	L := len(s.B)
	// z[i]: byte i is beyond the length or NUL ; allZ[i]: all bytes in [i,L) are so
	allZ := make([]*Term, L+1)
	allZ[L] = ts.True()
	for i := L - 1; i >= 0; i-- {
		zi := ts.Or(ts.Not(ts.Ult(ts.BV(uint64(i), 64), s.N)), ts.Eq(s.B[i], ts.BV(0, 8)))
		allZ[i] = ts.And(zi, allZ[i+1])
	}
	// new length = least i with allZ[i]
	n := ts.BV(uint64(L), 64)
	for i := L - 1; i >= 0; i-- {
		n = ts.Ite(allZ[i], ts.BV(uint64(i), 64), n)
	}
	return ex.normStr(&StrV{B: s.B, N: n})
}

func (ex *Exec) symHasPrefix(a, b *StrV) *Term {
	ts := ex.ts
	ab, an := ex.strBytes(a)
	bb, bn := ex.strBytes(b)
	r := ts.Ule(bn, an)
	for i := range bb {
		in := ts.Ult(ts.BV(uint64(i), 64), bn)
		if in.IsFalse() {
			break
		}
		var e *Term
		if i < len(ab) {
			e = ts.Eq(ab[i], bb[i])
		} else {
			e = ts.False()
		}
		r = ts.And(r, ts.Implies(in, e))
	}
	return r
}
