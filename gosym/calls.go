package main

import (
	"fmt"
	"go/types"
	"strings"

	"golang.org/x/tools/go/ssa"
)

// prepareCall evaluates callee and arguments.
func (ex *Exec) prepareCall(fr *Frame, cc *ssa.CallCommon) (Value, []Value) {
	var args []Value
	var fn Value
	if cc.IsInvoke() {
		recv := ex.get(fr, cc.Value)
		iv, ok := recv.(*IfaceV)
		if !ok {
			ex.unsupported(fmt.Sprintf("invoke on %T", recv))
		}
		if iv.Typ == nil {
			ex.goPanic("nil interface method call: " + cc.Method.Name())
		}
		fn = ex.resolveMethod(iv, cc.Method)
		args = append(args, iv.V)
	} else {
		fn = ex.get(fr, cc.Value)
	}
	for _, a := range cc.Args {
		args = append(args, ex.get(fr, a))
	}
	return fn, args
}

func (ex *Exec) resolveMethod(iv *IfaceV, m *types.Func) Value {
	if mt, ok := iv.Typ.(*modelType); ok {
		return &FuncV{Fn: nil, Binds: []Value{ex.concStr("model:" + mt.name + "." + m.Name())}}
	}
	ms := ex.cfg.Prog.MethodSets.MethodSet(iv.Typ)
	sel := ms.Lookup(m.Pkg(), m.Name())
	if sel == nil {
		ex.unsupported("method not found: " + iv.Typ.String() + "." + m.Name())
	}
	f := ex.cfg.Prog.MethodValue(sel)
	if f == nil {
		ex.unsupported("abstract method " + m.Name())
	}
	return &FuncV{Fn: f}
}

func (ex *Exec) invoke(g *G, fr *Frame, fn Value, args []Value, result *ssa.Call, cc *ssa.CallCommon) {
	var rv ssa.Value
	if result != nil {
		rv = result
	}
	ex.invokeIn(g, fr, fn, args, rv, cc)
}

// invokeIn dispatches a call: builtin, intrinsic, seam, model, native or SSA body.
func (ex *Exec) invokeIn(g *G, fr *Frame, fnv Value, args []Value, result ssa.Value, cc *ssa.CallCommon) {
	f, ok := fnv.(*FuncV)
	if !ok {
		ex.unsupported(fmt.Sprintf("call of %T", fnv))
	}
	setRes := func(v Value) {
		if result != nil && fr != nil {
			fr.locals[result] = v
		}
	}
	if f.Bi != nil {
		setRes(ex.builtin(g, fr, f.Bi, args, cc))
		return
	}
	if f.Fn == nil {
		if len(f.Binds) == 1 {
			if s, ok := f.Binds[0].(*StrV); ok && strings.HasPrefix(s.S, "model:") {
				setRes(ex.modelMethod(s.S[6:], args))
				return
			}
		}
		ex.goPanic("call of nil function")
	}
	fn := f.Fn
	name := fn.String()
	// seams: redirect to a harness stub
	if stub, ok := ex.cfg.Seams[name]; ok {
		sf := ex.harnessFunc(stub)
		if sf == nil {
			ex.unsupported("seam stub not found: " + stub)
		}
		ex.switchPoint(g)
		ex.pushFrame(g, sf, args, nil, result)
		return
	}
	if fn.Blocks == nil || !ex.ownPkg(pkgOf(fn)) {
		if ex.ownPkg(pkgOf(fn)) && strings.HasPrefix(fn.Name(), "verif") {
			ex.intrinsic(g, fr, fn, args, result)
			return
		}
		if handled, v := ex.model(g, fr, fn, name, args, result); handled {
			if v != noResult {
				setRes(v)
			}
			return
		}
		if fn.Blocks != nil && ex.interpretable(fn) {
			ex.pushFrame(g, fn, args, f.Binds, result)
			return
		}
		ex.unsupported("external function " + name)
	}
	ex.pushFrame(g, fn, args, f.Binds, result)
}

type noResultT struct{}

var noResult Value = noResultT{}

func (ex *Exec) harnessFunc(name string) *ssa.Function {
	if f, ok := ex.fnCache[name]; ok {
		return f
	}
	f := ex.cfg.Pkg.Func(name)
	ex.fnCache[name] = f
	return f
}

// interpretable: foreign functions whose SSA bodies are safe to interpret.
func (ex *Exec) interpretable(fn *ssa.Function) bool {
	p := pkgOf(fn)
	if p == nil {
		// synthetic wrappers (bound methods, thunks)
		return true
	}
	switch p.Path() {
	case "sort", "slices", "cmp", "path", "unicode/utf8", "unicode", "io/fs", "internal/bytealg", "internal/stringslite", "math/bits":
		return true
	case "strings":
		switch fn.Name() {
		case "HasPrefix", "HasSuffix", "TrimSpace", "Split", "SplitAfter", "genSplit", "Count", "Index", "IndexByte", "Join", "Repeat", "Contains", "explode", "TrimSuffix", "TrimPrefix", "LastIndex", "LastIndexByte":
			return false // handled natively where needed
		}
	}
	return false
}

func (ex *Exec) builtin(g *G, fr *Frame, b *ssa.Builtin, args []Value, cc *ssa.CallCommon) Value {
	ts := ex.ts
	switch b.Name() {
	case "len":
		switch x := args[0].(type) {
		case *StrV:
			return ex.strLen(x)
		case *SliceV:
			if x.Cell == nil {
				return ts.BV(0, 64)
			}
			return x.Len
		case *MapV:
			return ts.BV(uint64(ex.mapLen(x.M)), 64)
		case *ChanV:
			if x.C == nil {
				return ts.BV(0, 64)
			}
			return ts.BV(uint64(len(x.C.Buf)), 64)
		case *ArrV:
			return ts.BV(uint64(len(x.E)), 64)
		case *RawArrV:
			return ts.BV(uint64(x.N), 64)
		case *PtrV:
			at := cc.Args[0].Type().Underlying().(*types.Pointer).Elem().Underlying().(*types.Array)
			return ts.BV(uint64(at.Len()), 64)
		}
	case "cap":
		switch x := args[0].(type) {
		case *SliceV:
			if x.Cell == nil {
				return ts.BV(0, 64)
			}
			return x.Cap
		case *ChanV:
			if x.C == nil {
				return ts.BV(0, 64)
			}
			return x.C.Cap
		case *PtrV:
			at := cc.Args[0].Type().Underlying().(*types.Pointer).Elem().Underlying().(*types.Array)
			return ts.BV(uint64(at.Len()), 64)
		}
	case "append":
		return ex.appendOp(args[0].(*SliceV), args[1], cc.Args[0].Type())
	case "copy":
		return ex.copyOp(args[0].(*SliceV), args[1])
	case "delete":
		m := args[0].(*MapV)
		ex.mapDelete(m.M, args[1])
		return nil
	case "close":
		ex.chanClose(g, args[0].(*ChanV).C)
		return nil
	case "ssa:wrapnilchk":
		if p, ok := args[0].(*PtrV); ok && p.IsNil() {
			ex.goPanic("value method called on nil pointer")
		}
		return args[0]
	case "min", "max":
		if len(args) == 2 {
			a, okA := args[0].(*Term)
			c, okB := args[1].(*Term)
			if okA && okB {
				signed := isSigned(cc.Args[0].Type())
				var lt *Term
				if signed {
					lt = ts.Slt(a, c)
				} else {
					lt = ts.Ult(a, c)
				}
				if b.Name() == "min" {
					return ts.Ite(lt, a, c)
				}
				return ts.Ite(lt, c, a)
			}
		}
	case "print", "println":
		return nil
	case "recover":
		return &IfaceV{}
	}
	ex.unsupported("builtin " + b.Name())
	return nil
}

func (ex *Exec) appendOp(s *SliceV, more Value, st types.Type) Value {
	ts := ex.ts
	elem := st.Underlying().(*types.Slice).Elem()
	if isByte(elem) {
		// raw
		var addB []*Term
		var addN *Term
		switch m := more.(type) {
		case *StrV:
			addB, addN = ex.strBytes(m)
		case *SliceV:
			if m.Cell == nil {
				return s
			}
			n := ex.concInt(m.Len, "append source length")
			for i := 0; i < n; i++ {
				addB = append(addB, ts.Select(m.Cell.RawArr, ex.off32(ts.Add(m.Off, ts.BV(uint64(i), 64)))))
			}
			addN = m.Len
		}
		if !addN.IsConst() {
			ex.unsupported("append of symbolic-length bytes")
		}
		n := int(addN.Val)
		oldLen := 0
		if s.Cell != nil {
			oldLen = ex.concInt(s.Len, "append dest length")
		}
		oldCap := 0
		if s.Cell != nil {
			oldCap = ex.concInt(s.Cap, "append dest cap")
		}
		if oldLen+n <= oldCap {
			arr := s.Cell.RawArr
			for i := 0; i < n; i++ {
				arr = ts.Store(arr, ex.off32(ts.Add(s.Off, ts.BV(uint64(oldLen+i), 64))), addB[i])
			}
			ex.noteWrite(s.Cell)
			s.Cell.RawArr = arr
			return &SliceV{Cell: s.Cell, Off: s.Off, Len: ts.BV(uint64(oldLen+n), 64), Cap: s.Cap}
		}
		nc := ex.newArrayCell(elem, oldLen+n)
		arr := nc.RawArr
		for i := 0; i < oldLen; i++ {
			arr = ts.Store(arr, ts.BV(uint64(i), 32), ts.Select(s.Cell.RawArr, ex.off32(ts.Add(s.Off, ts.BV(uint64(i), 64)))))
		}
		for i := 0; i < n; i++ {
			arr = ts.Store(arr, ts.BV(uint64(oldLen+i), 32), addB[i])
		}
		nc.RawArr = arr
		return &SliceV{Cell: nc, Off: ts.BV(0, 64), Len: ts.BV(uint64(oldLen+n), 64), Cap: ts.BV(uint64(oldLen+n), 64)}
	}
	m := more.(*SliceV)
	if m.Cell == nil {
		return s
	}
	n := ex.concInt(m.Len, "append source length")
	if n == 0 {
		return s
	}
	mo := int(m.Off.Val)
	vals := make([]Value, n)
	for i := 0; i < n; i++ {
		vals[i] = ex.cellLoad(m.Cell.Kids[mo+i])
	}
	oldLen, oldCap, so := 0, 0, 0
	if s.Cell != nil {
		oldLen = ex.concInt(s.Len, "append dest length")
		oldCap = ex.concInt(s.Cap, "append dest cap")
		so = int(s.Off.Val)
	}
	if oldLen+n <= oldCap {
		for i := 0; i < n; i++ {
			ex.cellStore(s.Cell.Kids[so+oldLen+i], vals[i])
		}
		return &SliceV{Cell: s.Cell, Off: s.Off, Len: ts.BV(uint64(oldLen+n), 64), Cap: s.Cap}
	}
	newCap := oldLen + n
	if newCap < 2*oldCap {
		newCap = 2 * oldCap
	}
	nc := ex.newArrayCell(elem, newCap)
	for i := 0; i < oldLen; i++ {
		ex.cellStore(nc.Kids[i], ex.cellLoad(s.Cell.Kids[so+i]))
	}
	for i := 0; i < n; i++ {
		ex.cellStore(nc.Kids[oldLen+i], vals[i])
	}
	return &SliceV{Cell: nc, Off: ts.BV(0, 64), Len: ts.BV(uint64(oldLen+n), 64), Cap: ts.BV(uint64(newCap), 64)}
}

// copyRawSym: copy between byte slices when a length is symbolic; bounded by the
// smaller of the two backing objects (at most 1024 bytes).
func (ex *Exec) copyRawSym(dst, s *SliceV) Value {
	ts := ex.ts
	bound := dst.Cell.RawLen
	if s.Cell.RawLen < bound {
		bound = s.Cell.RawLen
	}
	if dst.Len.IsConst() && int(dst.Len.Val) < bound {
		bound = int(dst.Len.Val)
	}
	if s.Len.IsConst() && int(s.Len.Val) < bound {
		bound = int(s.Len.Val)
	}
	if bound > 1024 {
		ex.unsupported("copy with symbolic length over more than 1024 bytes")
	}
	k := ts.Ite(ts.Ult(dst.Len, s.Len), dst.Len, s.Len)
	vals := make([]*Term, bound)
	for i := 0; i < bound; i++ {
		vals[i] = ts.Select(s.Cell.RawArr, ex.off32(ts.Add(s.Off, ts.BV(uint64(i), 64))))
	}
	arr := dst.Cell.RawArr
	for i := 0; i < bound; i++ {
		idx := ex.off32(ts.Add(dst.Off, ts.BV(uint64(i), 64)))
		old := ts.Select(dst.Cell.RawArr, idx)
		arr = ts.Store(arr, idx, ts.Ite(ts.Ult(ts.BV(uint64(i), 64), k), vals[i], old))
	}
	ex.noteWrite(dst.Cell)
	dst.Cell.RawArr = arr
	return k
}

func (ex *Exec) copyOp(dst *SliceV, src Value) Value {
	ts := ex.ts
	if dst.Cell == nil {
		return ts.BV(0, 64)
	}
	if s, ok := src.(*SliceV); ok && s.Cell != nil && dst.Cell.Raw && s.Cell.Raw && (!dst.Len.IsConst() || !s.Len.IsConst()) {
		return ex.copyRawSym(dst, s)
	}
	dn := ex.concInt(dst.Len, "copy dst len")
	switch s := src.(type) {
	case *StrV:
		b, n := ex.strBytes(s)
		sn := ex.concInt(n, "copy src len")
		k := dn
		if sn < k {
			k = sn
		}
		arr := dst.Cell.RawArr
		for i := 0; i < k; i++ {
			arr = ts.Store(arr, ex.off32(ts.Add(dst.Off, ts.BV(uint64(i), 64))), b[i])
		}
		ex.noteWrite(dst.Cell)
		dst.Cell.RawArr = arr
		return ts.BV(uint64(k), 64)
	case *SliceV:
		if s.Cell == nil {
			return ts.BV(0, 64)
		}
		sn := ex.concInt(s.Len, "copy src len")
		k := dn
		if sn < k {
			k = sn
		}
		if dst.Cell.Raw {
			vals := make([]*Term, k)
			for i := 0; i < k; i++ {
				vals[i] = ts.Select(s.Cell.RawArr, ex.off32(ts.Add(s.Off, ts.BV(uint64(i), 64))))
			}
			arr := dst.Cell.RawArr
			for i := 0; i < k; i++ {
				arr = ts.Store(arr, ex.off32(ts.Add(dst.Off, ts.BV(uint64(i), 64))), vals[i])
			}
			ex.noteWrite(dst.Cell)
			dst.Cell.RawArr = arr
			return ts.BV(uint64(k), 64)
		}
		vals := make([]Value, k)
		for i := 0; i < k; i++ {
			vals[i] = ex.cellLoad(s.Cell.Kids[int(s.Off.Val)+i])
		}
		for i := 0; i < k; i++ {
			ex.cellStore(dst.Cell.Kids[int(dst.Off.Val)+i], vals[i])
		}
		return ts.BV(uint64(k), 64)
	}
	ex.unsupported("copy source")
	return nil
}

// switchPoint: a scheduling point (seam call, yield, goroutine creation).
func (ex *Exec) switchPoint(g *G) {
	if g == nil || g.id < 0 || ex.merging > 0 {
		return
	}
	if ex.preempt > 0 && len(ex.gs) > 1 && ex.cur == g {
		ex.reschedule(true)
	}
}
