package main

import (
	"fmt"
	"strings"
)

type accessRec struct {
	wG  int
	wC  int   // clock of writer at write
	rVC []int // per-goroutine read clocks
	wAt string
}

// access is called on every cell load/store; it drives the lock-discipline,
// ownership and happens-before race monitors.
func (ex *Exec) access(c *Cell, write bool) {
	if c == nil || ex.cur == nil || ex.cur.id < 0 {
		return
	}
	g := ex.cur
	if mu, ok := ex.guardCells[c]; ok && ex.monitors["lock-discipline"] {
		if !ex.heldBy(g, mu) {
			ex.end(OutMonitor, fmt.Sprintf("lock-discipline: %s of guarded location %s without holding its mutex (goroutine %d)", rw(write), c.Name, g.id))
		}
	}
	if c.Owner != 0 && ex.openOwner[c.Owner] {
		ex.end(OutMonitor, fmt.Sprintf("ownership: %s of location %s owned by watcher %d during an operation on another watcher", rw(write), c.Name, c.Owner))
	}
	if write && c.Global && ex.monitors["no-global-writes"] && !strings.HasPrefix(c.Name, "verif") {
		ex.end(OutMonitor, "no-global-writes: store to package-level variable "+c.Name)
	}
	if !ex.cfg.Races || len(ex.gs) < 2 {
		return
	}
	if strings.HasPrefix(c.Name, "verif") {
		return // state of the harness's kernel-model stubs, not of the code under test
	}
	if ex.acc == nil {
		ex.acc = map[*Cell]*accessRec{}
	}
	a := ex.acc[c]
	if a == nil {
		a = &accessRec{wG: -1}
		ex.acc[c] = a
	}
	clk := func(vc []int, i int) int {
		if i < len(vc) {
			return vc[i]
		}
		return 0
	}
	// write-read / write-write race: last write must happen-before now
	if a.wG >= 0 && a.wG != g.id && a.wC > clk(g.vc, a.wG) {
		ex.end(OutRace, fmt.Sprintf("data race on %s: %s by goroutine %d not ordered after write by goroutine %d (%s)", c.Name, rw(write), g.id, a.wG, a.wAt))
	}
	if write {
		for i, rc := range a.rVC {
			if i != g.id && rc > clk(g.vc, i) {
				ex.end(OutRace, fmt.Sprintf("data race on %s: write by goroutine %d not ordered after read by goroutine %d", c.Name, g.id, i))
			}
		}
		ex.vcTickLazy(g)
		a.wG = g.id
		a.wC = clk(g.vc, g.id)
		a.wAt = ex.where()
		a.rVC = nil
	} else {
		ex.vcTickLazy(g)
		for len(a.rVC) <= g.id {
			a.rVC = append(a.rVC, 0)
		}
		a.rVC[g.id] = clk(g.vc, g.id)
	}
}

// vcTickLazy ensures g has a non-zero own clock component.
func (ex *Exec) vcTickLazy(g *G) {
	for len(g.vc) <= g.id {
		g.vc = append(g.vc, 0)
	}
	if g.vc[g.id] == 0 {
		g.vc[g.id] = 1
	}
}

func rw(w bool) string {
	if w {
		return "write"
	}
	return "read"
}

// mapAccess: maps are not cells; check their guard here.
func (ex *Exec) mapAccess(m *MapObj, write bool) {
	if m == nil || ex.cur == nil || ex.cur.id < 0 {
		return
	}
	if m.Owner != 0 && ex.openOwner[m.Owner] {
		ex.end(OutMonitor, fmt.Sprintf("ownership: %s of a map owned by watcher %d during an operation on another watcher", rw(write), m.Owner))
	}
	if mu, ok := ex.guardMaps[m]; ok && ex.monitors["lock-discipline"] {
		if !ex.heldBy(ex.cur, mu) {
			ex.end(OutMonitor, fmt.Sprintf("lock-discipline: %s of guarded map without holding its mutex (goroutine %d)", rw(write), ex.cur.id))
		}
	}
	if !ex.cfg.Races || len(ex.gs) < 2 {
		return
	}
	if ex.macc == nil {
		ex.macc = map[*MapObj]*Cell{}
	}
	c := ex.macc[m]
	if c == nil {
		c = &Cell{ID: -m.ID, Name: fmt.Sprintf("map#%d", m.ID)}
		ex.macc[m] = c
	}
	ex.access(c, write)
}
