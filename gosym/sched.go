package main

import (
	"fmt"
	"go/types"

	"golang.org/x/tools/go/ssa"
)

type waitKind int

const (
	wNone waitKind = iota
	wMutex
	wRMutex // waiting for read lock
	wSelect // select / send / recv
	wQuiesce
	wWaitGroup // sync.WaitGroup.Wait
)

type selCase struct {
	send bool
	ch   *ChanObj
	val  Value
}

type Wait struct {
	kind   waitKind
	mu     *mutexState
	cases  []selCase
	instr  ssa.Instruction // Select, Send or UnOp(ARROW)
	commaOk bool
}

type G struct {
	id    int
	stack []*Frame
	wait  *Wait
	done  bool
	vc    []int // vector clock
}

type mutexState struct {
	held    bool
	holder  int
	readers int
	vc      []int
	cell    *Cell
	count   int // sync.WaitGroup counter (the same record serves wait groups)
}

func (ex *Exec) newChan(capT *Term, t types.Type, name string) *ChanObj {
	ex.objSeq++
	c := &ChanObj{ID: ex.objSeq, Cap: capT, Typ: t, Name: name}
	ex.chans = append(ex.chans, c)
	return c
}

func (ex *Exec) startMain() {
	g := &G{id: 0}
	ex.gs = append(ex.gs, g)
	ex.cur = g
	fn := ex.cfg.Harness
	ex.pushFrame(g, fn, nil, nil, nil)
}

func (ex *Exec) spawn(parent *G, fn Value, args []Value, cc *ssa.CallCommon) {
	g := &G{id: len(ex.gs)}
	if parent != nil {
		ex.vcTickLazy(parent)
		g.vc = append([]int(nil), parent.vc...)
		ex.vcTick(parent) // publish, then advance: later accesses of the parent are not ordered before the child
	}
	ex.gs = append(ex.gs, g)
	// set up the call in the new goroutine: use a tiny trampoline
	saved := ex.cur
	ex.cur = g
	ex.invokeIn(g, nil, fn, args, nil, cc)
	ex.cur = saved
}

// runInit executes the package initialisers of the module's packages.
func (ex *Exec) runInit() {
	g := &G{id: -1}
	for _, pkg := range ex.initOrder() {
		fn := pkg.Func("init")
		if fn == nil || fn.Blocks == nil {
			continue
		}
		ex.pushFrame(g, fn, nil, nil, nil)
		for !g.done && len(g.stack) > 0 {
			if g.wait != nil {
				ex.unsupported("package init blocks")
			}
			ex.step(g)
		}
		g.done = false
	}
}

func (ex *Exec) initOrder() []*ssa.Package {
	var out []*ssa.Package
	seen := map[*types.Package]bool{}
	var visit func(p *types.Package)
	visit = func(p *types.Package) {
		if seen[p] {
			return
		}
		seen[p] = true
		for _, imp := range p.Imports() {
			visit(imp)
		}
		if ex.ownPkg(p) {
			if sp := ex.cfg.Prog.Package(p); sp != nil {
				out = append(out, sp)
			}
		}
	}
	visit(ex.cfg.Pkg.Pkg)
	return out
}

// enabled reports whether g can make progress now.
func (ex *Exec) enabled(g *G) bool {
	if g.done {
		return false
	}
	if g.wait == nil {
		return true
	}
	switch g.wait.kind {
	case wMutex:
		return !g.wait.mu.held && g.wait.mu.readers == 0
	case wRMutex:
		return !g.wait.mu.held
	case wWaitGroup:
		return g.wait.mu.count == 0
	case wSelect:
		for _, c := range g.wait.cases {
			if ex.caseReady(g, c) {
				return true
			}
		}
		return false
	case wQuiesce:
		for _, o := range ex.gs {
			if o != g && ex.enabledNoQ(o) {
				return false
			}
		}
		return true
	}
	return false
}

func (ex *Exec) enabledNoQ(g *G) bool {
	if g.wait != nil && g.wait.kind == wQuiesce {
		return false
	}
	return ex.enabled(g)
}

func (ex *Exec) chanLenLtCap(c *ChanObj) bool {
	// capacity may be symbolic: decide by branching
	n := ex.ts.BV(uint64(len(c.Buf)), 64)
	return ex.branch(ex.ts.Ult(n, c.Cap), "channel capacity")
}

func (ex *Exec) caseReady(g *G, c selCase) bool {
	if c.ch == nil {
		return false // nil channel: never ready
	}
	if c.send {
		if c.ch.Closed {
			return true // will panic
		}
		if ex.partner(g, c.ch, false) != nil {
			return true
		}
		return ex.chanLenLtCap(c.ch)
	}
	if len(c.ch.Buf) > 0 || c.ch.Closed {
		return true
	}
	return ex.partner(g, c.ch, true) != nil
}

// partner finds another goroutine parked on the complementary operation.
func (ex *Exec) partner(g *G, ch *ChanObj, wantSend bool) *G {
	for _, o := range ex.gs {
		if o == g || o.done || o.wait == nil || o.wait.kind != wSelect {
			continue
		}
		for _, c := range o.wait.cases {
			if c.ch == ch && c.send == wantSend {
				return o
			}
		}
	}
	return nil
}

// loop is the scheduler: run the current goroutine until it blocks, finishes
// or reaches a switch point.
func (ex *Exec) loop() {
	main := ex.gs[0]
	for !main.done {
		g := ex.cur
		if g.done || g.wait != nil {
			ex.reschedule(false)
			continue
		}
		ex.step(g)
	}
}

// reschedule picks the next goroutine. voluntary=true at switch points where
// the current goroutine could also continue.
func (ex *Exec) reschedule(voluntary bool) {
	var en []*G
	for _, o := range ex.gs {
		if ex.enabled(o) {
			en = append(en, o)
		}
	}
	if len(en) == 0 {
		ex.deadlock()
	}
	var pick *G
	if voluntary {
		// current first (no preemption), others cost budget
		if ex.preempt <= 0 || len(en) == 1 {
			return
		}
		opts := []*G{ex.cur}
		for _, o := range en {
			if o != ex.cur {
				opts = append(opts, o)
			}
		}
		i := ex.chooseN(len(opts), "preemption")
		ex.res.Sched = append(ex.res.Sched, opts[i].id)
		if i == 0 {
			return
		}
		ex.preempt--
		ex.res.Preempted = true
		pick = opts[i]
	} else {
		i := 0
		if len(en) > 1 {
			i = ex.chooseN(len(en), "schedule")
		}
		pick = en[i]
		ex.res.Sched = append(ex.res.Sched, pick.id)
	}
	ex.cur = pick
	if pick.wait != nil {
		ex.wake(pick)
	}
}

func (ex *Exec) deadlock() {
	msg := "all goroutines blocked:"
	for _, o := range ex.gs {
		if o.done {
			continue
		}
		where := ""
		if len(o.stack) > 0 {
			fr := o.stack[len(o.stack)-1]
			where = fr.fn.String()
			// walk up to first module function
			for i := len(o.stack) - 1; i >= 0; i-- {
				if ex.ownPkg(pkgOf(o.stack[i].fn)) {
					where = o.stack[i].fn.String()
					break
				}
			}
		}
		kind := "?"
		if o.wait != nil {
			kind = [...]string{"none", "mutex", "rmutex", "chan", "quiesce"}[o.wait.kind]
		}
		msg += fmt.Sprintf(" g%d[%s in %s]", o.id, kind, where)
	}
	ex.end(OutDeadlock, msg)
}

// wake completes the pending operation of an enabled, parked goroutine.
func (ex *Exec) wake(g *G) {
	w := g.wait
	switch w.kind {
	case wMutex:
		g.wait = nil
		ex.lockAcquire(g, w.mu)
	case wRMutex:
		g.wait = nil
		w.mu.readers++
		ex.vcJoin(g, w.mu.vc)
	case wQuiesce:
		g.wait = nil
	case wWaitGroup:
		g.wait = nil
		ex.vcJoin(g, w.mu.vc)
	case wSelect:
		var ready []int
		for i, c := range w.cases {
			if ex.caseReady(g, c) {
				ready = append(ready, i)
			}
		}
		if len(ready) == 0 {
			ex.unsupported("wake without ready case")
		}
		i := ready[0]
		if len(ready) > 1 {
			i = ready[ex.chooseN(len(ready), "select case")]
		}
		g.wait = nil
		ex.completeCase(g, w, i)
	}
}

// completeCase performs case i of g's pending channel operation and stores
// the result of the instruction.
func (ex *Exec) completeCase(g *G, w *Wait, i int) {
	c := w.cases[i]
	var recvVal Value
	recvOk := true
	if c.send {
		if c.ch.Closed {
			ex.goPanic("send on closed channel")
		}
		c.ch.SendLog = append(c.ch.SendLog, g.id)
		if p := ex.partner(g, c.ch, false); p != nil && len(c.ch.Buf) == 0 {
			// hand over directly to parked receiver
			ex.vcTickLazy(g)
			ex.vcJoin(p, g.vc)
			ex.vcTick(g)
			ex.deliver(p, c.ch, c.val, true)
		} else {
			ex.vcTickLazy(g)
			c.ch.Buf = append(c.ch.Buf, &chanItem{v: c.val, vc: append([]int(nil), g.vc...)})
			ex.vcTick(g)
		}
	} else {
		if len(c.ch.Buf) > 0 {
			it := c.ch.Buf[0].(*chanItem)
			c.ch.Buf = c.ch.Buf[1:]
			recvVal = it.v
			ex.vcJoin(g, it.vc)
			// a parked sender may now proceed into the buffer
			if p := ex.partner(g, c.ch, true); p != nil {
				ex.moveParkedSender(p, c.ch)
			}
		} else if c.ch.Closed {
			recvVal = ex.zero(c.ch.Typ.Underlying().(*types.Chan).Elem())
			recvOk = false
			ex.vcJoin(g, c.ch.closeVC)
		} else {
			p := ex.partner(g, c.ch, true)
			if p == nil {
				ex.unsupported("recv without partner")
			}
			recvVal = ex.takeFromParkedSender(p, c.ch)
			ex.vcJoin(g, p.vc)
			ex.vcTick(p)
		}
	}
	ex.setChanResult(g, w, i, recvVal, recvOk)
}

type chanItem struct {
	v  Value
	vc []int
}

// deliver completes parked receiver p's recv on ch with value v.
func (ex *Exec) deliver(p *G, ch *ChanObj, v Value, ok bool) {
	w := p.wait
	for i, c := range w.cases {
		if c.ch == ch && !c.send {
			p.wait = nil
			ex.setChanResult(p, w, i, v, ok)
			return
		}
	}
}

// takeFromParkedSender completes parked sender p's send on ch.
func (ex *Exec) takeFromParkedSender(p *G, ch *ChanObj) Value {
	w := p.wait
	for i, c := range w.cases {
		if c.ch == ch && c.send {
			p.wait = nil
			ch.SendLog = append(ch.SendLog, p.id)
			ex.vcTickLazy(p)
			ex.setChanResult(p, w, i, nil, true)
			return c.val
		}
	}
	ex.unsupported("parked sender vanished")
	return nil
}

func (ex *Exec) moveParkedSender(p *G, ch *ChanObj) {
	// only if there is room now
	if !ex.chanLenLtCap(ch) {
		return
	}
	w := p.wait
	for i, c := range w.cases {
		if c.ch == ch && c.send {
			p.wait = nil
			ch.SendLog = append(ch.SendLog, p.id)
			ex.vcTickLazy(p)
			ch.Buf = append(ch.Buf, &chanItem{v: c.val, vc: append([]int(nil), p.vc...)})
			ex.vcTick(p)
			ex.setChanResult(p, w, i, nil, true)
			return
		}
	}
}

// setChanResult writes the instruction result for g's channel operation.
func (ex *Exec) setChanResult(g *G, w *Wait, i int, recvVal Value, recvOk bool) {
	fr := g.stack[len(g.stack)-1]
	ts := ex.ts
	switch in := w.instr.(type) {
	case *ssa.Send:
	case *ssa.UnOp:
		if in.CommaOk {
			fr.locals[in] = TupleV{recvVal, ts.Bool(recvOk)}
		} else {
			fr.locals[in] = recvVal
		}
	case *ssa.Select:
		tt := in.Type().(*types.Tuple)
		res := make(TupleV, tt.Len())
		res[0] = ts.BV(uint64(i), 64)
		res[1] = ts.Bool(recvOk && !w.cases[i].send)
		k := 2
		for j, st := range in.States {
			if st.Dir == types.RecvOnly {
				if j == i {
					res[k] = recvVal
				} else {
					res[k] = ex.zero(tt.At(k).Type())
				}
				k++
			}
		}
		fr.locals[in] = res
	}
}

func (ex *Exec) park(g *G, w *Wait) {
	if ex.merging > 0 {
		panic(mergeAbort{"blocking op in arm"})
	}
	g.wait = w
}

func (ex *Exec) chanSend(g *G, fr *Frame, in *ssa.Send) {
	ch := ex.get(fr, in.Chan).(*ChanV)
	w := &Wait{kind: wSelect, instr: in, cases: []selCase{{send: true, ch: ch.C, val: ex.get(fr, in.X)}}}
	ex.chanOp(g, w)
}

func (ex *Exec) chanRecv(g *G, fr *Frame, in *ssa.UnOp) Value {
	ch := ex.get(fr, in.X).(*ChanV)
	w := &Wait{kind: wSelect, instr: in, cases: []selCase{{send: false, ch: ch.C}}}
	ex.chanOp(g, w)
	if g.wait != nil {
		return nil // result set on wake
	}
	return fr.locals[in]
}

// chanOp tries the operation immediately, else parks.
func (ex *Exec) chanOp(g *G, w *Wait) {
	if ex.merging > 0 {
		panic(mergeAbort{"channel op in arm"})
	}
	var ready []int
	for i, c := range w.cases {
		if ex.caseReady(g, c) {
			ready = append(ready, i)
		}
	}
	if len(ready) == 0 {
		ex.park(g, w)
		return
	}
	i := ready[0]
	if len(ready) > 1 {
		i = ready[ex.chooseN(len(ready), "select case")]
	}
	ex.completeCase(g, w, i)
}

func (ex *Exec) selectOp(g *G, fr *Frame, in *ssa.Select) {
	w := &Wait{kind: wSelect, instr: in}
	for _, st := range in.States {
		ch := ex.get(fr, st.Chan).(*ChanV)
		c := selCase{send: st.Dir == types.SendOnly, ch: ch.C}
		if c.send {
			c.val = ex.get(fr, st.Send)
		}
		w.cases = append(w.cases, c)
	}
	if !in.Blocking {
		var ready []int
		for i, c := range w.cases {
			if ex.caseReady(g, c) {
				ready = append(ready, i)
			}
		}
		if len(ready) == 0 {
			tt := in.Type().(*types.Tuple)
			res := make(TupleV, tt.Len())
			res[0] = ex.ts.BV(^uint64(0), 64)
			res[1] = ex.ts.False()
			for k := 2; k < tt.Len(); k++ {
				res[k] = ex.zero(tt.At(k).Type())
			}
			fr.locals[in] = res
			return
		}
	}
	ex.chanOp(g, w)
}

func (ex *Exec) chanClose(g *G, ch *ChanObj) {
	if ex.merging > 0 {
		panic(mergeAbort{"close in arm"})
	}
	if ch == nil {
		ex.goPanic("close of nil channel")
	}
	if ch.Closed {
		ex.goPanic("close of closed channel")
	}
	ch.Closed = true
	ch.CloseBy = append(ch.CloseBy, g.id)
	ex.vcTickLazy(g)
	ch.closeVC = append([]int(nil), g.vc...)
	ex.vcTick(g)
}

// ---- mutexes ----

func (ex *Exec) mutexOf(p *PtrV) *mutexState {
	if p.IsNil() {
		ex.goPanic("nil mutex")
	}
	m, ok := ex.mutexes[p.Cell]
	if !ok {
		m = &mutexState{cell: p.Cell}
		ex.mutexes[p.Cell] = m
	}
	return m
}

func (ex *Exec) lockAcquire(g *G, m *mutexState) {
	m.held = true
	m.holder = g.id
	ex.vcJoin(g, m.vc)
}

func (ex *Exec) mutexLock(g *G, p *PtrV) {
	if ex.merging > 0 {
		panic(mergeAbort{"lock in arm"})
	}
	m := ex.mutexOf(p)
	// acquiring a lock is a scheduling point when a pre-emption budget is left
	ex.switchPoint(g)
	if m.held || m.readers > 0 {
		ex.park(g, &Wait{kind: wMutex, mu: m})
		return
	}
	ex.lockAcquire(g, m)
}

func (ex *Exec) mutexUnlock(g *G, p *PtrV) {
	if ex.merging > 0 {
		panic(mergeAbort{"unlock in arm"})
	}
	m := ex.mutexOf(p)
	if !m.held {
		ex.goPanic("sync: unlock of unlocked mutex")
	}
	m.held = false
	ex.vcTickLazy(g)
	m.vc = vcMax(m.vc, g.vc)
	ex.vcTick(g) // publish, then advance
}

func (ex *Exec) mutexRLock(g *G, p *PtrV) {
	m := ex.mutexOf(p)
	if m.held {
		ex.park(g, &Wait{kind: wRMutex, mu: m})
		return
	}
	m.readers++
	ex.vcJoin(g, m.vc)
}

func (ex *Exec) mutexRUnlock(g *G, p *PtrV) {
	m := ex.mutexOf(p)
	if m.readers <= 0 {
		ex.goPanic("sync: RUnlock of unlocked RWMutex")
	}
	m.readers--
	ex.vcTickLazy(g)
	m.vc = vcMax(m.vc, g.vc)
	ex.vcTick(g)
}

// ---- sync.WaitGroup ----

func (ex *Exec) wgAdd(g *G, p *PtrV, delta int) {
	if ex.merging > 0 {
		panic(mergeAbort{"WaitGroup in arm"})
	}
	m := ex.mutexOf(p)
	m.count += delta
	if m.count < 0 {
		ex.goPanic("sync: negative WaitGroup counter")
	}
	if delta < 0 { // Done: release
		ex.vcTickLazy(g)
		m.vc = vcMax(m.vc, g.vc)
		ex.vcTick(g)
	}
}

func (ex *Exec) wgWait(g *G, p *PtrV) {
	if ex.merging > 0 {
		panic(mergeAbort{"WaitGroup in arm"})
	}
	m := ex.mutexOf(p)
	if m.count > 0 {
		ex.park(g, &Wait{kind: wWaitGroup, mu: m})
		return
	}
	ex.vcJoin(g, m.vc)
}

func (ex *Exec) heldBy(g *G, c *Cell) bool {
	m, ok := ex.mutexes[c]
	return ok && m.held && m.holder == g.id
}

// ---- vector clocks ----

func (ex *Exec) vcTick(g *G) {
	if g.id < 0 {
		return
	}
	for len(g.vc) <= g.id {
		g.vc = append(g.vc, 0)
	}
	g.vc[g.id]++
}

func (ex *Exec) vcJoin(g *G, o []int) {
	g.vc = vcMax(g.vc, o)
}

func vcMax(a, b []int) []int {
	n := len(a)
	if len(b) > n {
		n = len(b)
	}
	r := make([]int, n)
	for i := range r {
		if i < len(a) {
			r[i] = a[i]
		}
		if i < len(b) && b[i] > r[i] {
			r[i] = b[i]
		}
	}
	return r
}

func vcLeq(a, b []int) bool {
	for i, x := range a {
		y := 0
		if i < len(b) {
			y = b[i]
		}
		if x > y {
			return false
		}
	}
	return true
}
