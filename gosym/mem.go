package main

import (
	"fmt"
	"go/types"
)

var sizes = types.SizesFor("gc", "amd64")

func (ex *Exec) newCell(t types.Type, name string) *Cell {
	ex.cellSeq++
	c := &Cell{ID: ex.cellSeq, Typ: t, Name: name, Owner: ex.curOwner}
	switch u := t.Underlying().(type) {
	case *types.Struct:
		c.Kids = make([]*Cell, u.NumFields())
		for i := 0; i < u.NumFields(); i++ {
			c.Kids[i] = ex.newCell(u.Field(i).Type(), name+"."+u.Field(i).Name())
		}
	case *types.Array:
		if isByte(u.Elem()) {
			c.Raw = true
			c.RawLen = int(u.Len())
			c.RawArr = ex.ts.ConstArr(0)
		} else {
			c.Kids = make([]*Cell, u.Len())
			for i := range c.Kids {
				c.Kids[i] = ex.newCell(u.Elem(), fmt.Sprintf("%s[%d]", name, i))
			}
		}
	default:
		c.V = ex.zero(t)
	}
	return c
}

// newArrayCell allocates a backing array for make([]T, n) / append.
func (ex *Exec) newArrayCell(elem types.Type, n int) *Cell {
	return ex.newCell(types.NewArray(elem, int64(n)), "arr")
}

func (ex *Exec) zero(t types.Type) Value {
	switch u := t.Underlying().(type) {
	case *types.Basic:
		if w, ok := intWidth(t); ok {
			return ex.ts.BV(0, w)
		}
		if isBool(t) {
			return ex.ts.False()
		}
		if isString(t) {
			return ex.concStr("")
		}
		if u.Kind() == types.UnsafePointer {
			return &PtrV{}
		}
		if u.Kind() == types.UntypedNil {
			return &PtrV{}
		}
		ex.unsupported("zero value of basic type " + t.String())
	case *types.Pointer:
		return &PtrV{}
	case *types.Slice:
		return &SliceV{}
	case *types.Map:
		return &MapV{}
	case *types.Chan:
		return &ChanV{}
	case *types.Signature:
		return &FuncV{}
	case *types.Interface:
		return &IfaceV{}
	case *types.Struct:
		f := make([]Value, u.NumFields())
		for i := range f {
			f[i] = ex.zero(u.Field(i).Type())
		}
		return &StructV{F: f}
	case *types.Array:
		if isByte(u.Elem()) {
			return &RawArrV{Arr: ex.ts.ConstArr(0), N: int(u.Len())}
		}
		e := make([]Value, u.Len())
		for i := range e {
			e[i] = ex.zero(u.Elem())
		}
		return &ArrV{E: e}
	case *types.Tuple:
		tv := make(TupleV, u.Len())
		for i := range tv {
			tv[i] = ex.zero(u.At(i).Type())
		}
		return tv
	}
	ex.unsupported("zero value of " + t.String())
	return nil
}

// ---- journaling (for diamond merging) ----

type jentry struct {
	c      *Cell
	oldV   Value
	oldArr *Term
}

type journal struct {
	ents []jentry
	seen map[*Cell]bool
}

func (ex *Exec) noteWrite(c *Cell) {
	if n := len(ex.journals); n > 0 {
		j := ex.journals[n-1]
		if !j.seen[c] {
			j.seen[c] = true
			j.ents = append(j.ents, jentry{c, c.V, c.RawArr})
		}
	}
}

// ---- loads and stores ----

func (ex *Exec) cellLoad(c *Cell) Value {
	ex.access(c, false)
	if c.Raw {
		return &RawArrV{Arr: c.RawArr, N: c.RawLen}
	}
	if c.Kids != nil {
		switch c.Typ.Underlying().(type) {
		case *types.Struct:
			f := make([]Value, len(c.Kids))
			for i, k := range c.Kids {
				f[i] = ex.cellLoad(k)
			}
			return &StructV{F: f}
		default:
			e := make([]Value, len(c.Kids))
			for i, k := range c.Kids {
				e[i] = ex.cellLoad(k)
			}
			return &ArrV{E: e}
		}
	}
	if _, ok := c.Typ.Underlying().(*types.Struct); ok && c.Kids == nil {
		return &StructV{}
	}
	if _, ok := c.Typ.Underlying().(*types.Array); ok && c.Kids == nil {
		return &ArrV{}
	}
	return c.V
}

func (ex *Exec) cellStore(c *Cell, v Value) {
	ex.access(c, true)
	if c.Raw {
		rv, ok := v.(*RawArrV)
		if !ok {
			ex.unsupported(fmt.Sprintf("store of %T into raw cell", v))
		}
		ex.noteWrite(c)
		c.RawArr = rv.Arr
		return
	}
	switch x := v.(type) {
	case *StructV:
		if len(c.Kids) != len(x.F) {
			ex.unsupported("struct store arity mismatch")
		}
		for i, k := range c.Kids {
			ex.cellStore(k, x.F[i])
		}
		return
	case *ArrV:
		if len(c.Kids) != len(x.E) {
			ex.unsupported("array store arity mismatch")
		}
		for i, k := range c.Kids {
			ex.cellStore(k, x.E[i])
		}
		return
	}
	ex.noteWrite(c)
	c.V = v
}

// off32 converts a BV64 offset into a BV32 array index.
func (ex *Exec) off32(o *Term) *Term { return ex.ts.Extract(o, 31, 0) }

func (ex *Exec) rawLoad(p *PtrV, t types.Type) Value {
	ex.access(p.Cell, false)
	off := p.Off
	if off == nil {
		off = ex.ts.BV(0, 64)
	}
	ts := ex.ts
	if w, ok := intWidth(t); ok {
		var r *Term
		for i := 0; i < w/8; i++ {
			b := ts.Select(p.Cell.RawArr, ex.off32(ts.Add(off, ts.BV(uint64(i), 64))))
			if r == nil {
				r = b
			} else {
				r = ts.Concat(b, r)
			}
		}
		return r
	}
	switch u := t.Underlying().(type) {
	case *types.Struct:
		offs := sizes.Offsetsof(structFields(u))
		f := make([]Value, u.NumFields())
		for i := range f {
			f[i] = ex.rawLoad(&PtrV{Cell: p.Cell, Off: ts.Add(off, ts.BV(uint64(offs[i]), 64))}, u.Field(i).Type())
		}
		return &StructV{F: f}
	case *types.Array:
		if isByte(u.Elem()) && off.IsConst() && off.Val == 0 && int(u.Len()) == p.Cell.RawLen {
			return &RawArrV{Arr: p.Cell.RawArr, N: p.Cell.RawLen}
		}
	}
	ex.unsupported("raw load of type " + t.String())
	return nil
}

func structFields(u *types.Struct) []*types.Var {
	f := make([]*types.Var, u.NumFields())
	for i := range f {
		f[i] = u.Field(i)
	}
	return f
}

func (ex *Exec) rawStore(p *PtrV, t types.Type, v Value) {
	ex.access(p.Cell, true)
	off := p.Off
	if off == nil {
		off = ex.ts.BV(0, 64)
	}
	ts := ex.ts
	if w, ok := intWidth(t); ok {
		x := v.(*Term)
		ex.noteWrite(p.Cell)
		arr := p.Cell.RawArr
		for i := 0; i < w/8; i++ {
			arr = ts.Store(arr, ex.off32(ts.Add(off, ts.BV(uint64(i), 64))), ts.Extract(x, i*8+7, i*8))
		}
		p.Cell.RawArr = arr
		return
	}
	switch u := t.Underlying().(type) {
	case *types.Struct:
		offs := sizes.Offsetsof(structFields(u))
		sv := v.(*StructV)
		for i := range sv.F {
			ex.rawStore(&PtrV{Cell: p.Cell, Off: ts.Add(off, ts.BV(uint64(offs[i]), 64))}, u.Field(i).Type(), sv.F[i])
		}
		return
	case *types.Array:
		if rv, ok := v.(*RawArrV); ok && off.IsConst() && off.Val == 0 && rv.N == p.Cell.RawLen {
			ex.noteWrite(p.Cell)
			p.Cell.RawArr = rv.Arr
			return
		}
	}
	ex.unsupported("raw store of type " + t.String())
}

func (ex *Exec) load(p *PtrV, t types.Type) Value {
	if p.IsNil() {
		ex.goPanic("invalid memory address or nil pointer dereference")
	}
	if p.Cell.Raw {
		if p.Off == nil {
			if a, ok := t.Underlying().(*types.Array); ok && isByte(a.Elem()) && int(a.Len()) == p.Cell.RawLen {
				return ex.cellLoad(p.Cell)
			}
		}
		return ex.rawLoad(p, t)
	}
	return ex.cellLoad(p.Cell)
}

func (ex *Exec) store(p *PtrV, t types.Type, v Value) {
	if p.IsNil() {
		ex.goPanic("invalid memory address or nil pointer dereference")
	}
	if p.Cell.Raw {
		if p.Off == nil {
			if _, ok := v.(*RawArrV); ok {
				ex.cellStore(p.Cell, v)
				return
			}
		}
		ex.rawStore(p, t, v)
		return
	}
	ex.cellStore(p.Cell, v)
}

// iteValue merges two values under condition c; ok=false if not mergeable.
func (ex *Exec) iteValue(c *Term, a, b Value) (Value, bool) {
	if a == b {
		return a, true
	}
	switch x := a.(type) {
	case *Term:
		y, ok := b.(*Term)
		if !ok || x.S != y.S {
			return nil, false
		}
		return ex.ts.Ite(c, x, y), true
	case *StrV:
		y, ok := b.(*StrV)
		if !ok {
			return nil, false
		}
		if x.Conc && y.Conc && x.S == y.S {
			return x, true
		}
		xb, xn := ex.strBytes(x)
		yb, yn := ex.strBytes(y)
		n := len(xb)
		if len(yb) > n {
			n = len(yb)
		}
		if n > 4096 {
			return nil, false
		}
		out := make([]*Term, n)
		z := ex.ts.BV(0, 8)
		for i := 0; i < n; i++ {
			p, q := z, z
			if i < len(xb) {
				p = xb[i]
			}
			if i < len(yb) {
				q = yb[i]
			}
			out[i] = ex.ts.Ite(c, p, q)
		}
		return ex.normStr(&StrV{B: out, N: ex.ts.Ite(c, xn, yn)}), true
	case *PtrV:
		y, ok := b.(*PtrV)
		if !ok || x.Cell != y.Cell || x.Fn != y.Fn {
			return nil, false
		}
		if x.Off == nil && y.Off == nil {
			return x, true
		}
		if x.Off == nil || y.Off == nil {
			return nil, false
		}
		return &PtrV{Cell: x.Cell, Off: ex.ts.Ite(c, x.Off, y.Off)}, true
	case *StructV:
		y, ok := b.(*StructV)
		if !ok || len(x.F) != len(y.F) {
			return nil, false
		}
		f := make([]Value, len(x.F))
		for i := range f {
			v, ok := ex.iteValue(c, x.F[i], y.F[i])
			if !ok {
				return nil, false
			}
			f[i] = v
		}
		return &StructV{F: f}, true
	case *ArrV:
		y, ok := b.(*ArrV)
		if !ok || len(x.E) != len(y.E) {
			return nil, false
		}
		e := make([]Value, len(x.E))
		for i := range e {
			v, ok := ex.iteValue(c, x.E[i], y.E[i])
			if !ok {
				return nil, false
			}
			e[i] = v
		}
		return &ArrV{E: e}, true
	case *RawArrV:
		y, ok := b.(*RawArrV)
		if !ok || x.N != y.N {
			return nil, false
		}
		return &RawArrV{Arr: ex.ts.Ite(c, x.Arr, y.Arr), N: x.N}, true
	case *IfaceV:
		y, ok := b.(*IfaceV)
		if !ok {
			return nil, false
		}
		if x.Typ == nil && y.Typ == nil {
			return x, true
		}
		if x.Typ == nil || y.Typ == nil || !identical(x.Typ, y.Typ) {
			return nil, false
		}
		v, ok := ex.iteValue(c, x.V, y.V)
		if !ok {
			return nil, false
		}
		return &IfaceV{Typ: x.Typ, V: v}, true
	case *SliceV:
		y, ok := b.(*SliceV)
		if !ok || x.Cell != y.Cell {
			return nil, false
		}
		if x.Cell == nil {
			return x, true
		}
		return &SliceV{Cell: x.Cell, Off: ex.ts.Ite(c, x.Off, y.Off), Len: ex.ts.Ite(c, x.Len, y.Len), Cap: ex.ts.Ite(c, x.Cap, y.Cap)}, true
	case *MapV:
		y, ok := b.(*MapV)
		if ok && x.M == y.M {
			return x, true
		}
	case *ChanV:
		y, ok := b.(*ChanV)
		if ok && x.C == y.C {
			return x, true
		}
	case *FuncV:
		y, ok := b.(*FuncV)
		if ok && x.Fn == y.Fn && x.Bi == y.Bi && len(x.Binds) == len(y.Binds) {
			for i := range x.Binds {
				if x.Binds[i] != y.Binds[i] {
					return nil, false
				}
			}
			return x, true
		}
	case TupleV:
		y, ok := b.(TupleV)
		if !ok || len(x) != len(y) {
			return nil, false
		}
		t := make(TupleV, len(x))
		for i := range t {
			v, ok := ex.iteValue(c, x[i], y[i])
			if !ok {
				return nil, false
			}
			t[i] = v
		}
		return t, true
	case nil:
		if b == nil {
			return nil, true
		}
	}
	return nil, false
}
