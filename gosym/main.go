package main

// gosym: bounded symbolic executor for Go (go/ssa -> SMT-LIB2).
//
//   gosym run -dir /repo -pkg . -goos linux -harness H_x -overlay dir ...
//
// Loads the package from the *current working tree* with harness files
// injected through a go/packages overlay, explores every path of the harness
// function, and prints a JSON summary.

import (
	"encoding/json"
	"flag"
	"fmt"
	"os"
	"path/filepath"
	"runtime"
	"runtime/pprof"
	"sort"
	"strconv"
	"strings"
	"sync"
	"time"

	"golang.org/x/tools/go/packages"
	"golang.org/x/tools/go/ssa"
	"golang.org/x/tools/go/ssa/ssautil"
)

type multiFlag []string

func (m *multiFlag) String() string     { return strings.Join(*m, ",") }
func (m *multiFlag) Set(s string) error { *m = append(*m, s); return nil }

func main() {
	if len(os.Args) < 2 {
		fmt.Fprintln(os.Stderr, "usage: gosym run|list [flags]")
		os.Exit(2)
	}
	switch os.Args[1] {
	case "run":
		os.Exit(cmdRun(os.Args[2:]))
	case "rewrite":
		os.Exit(cmdRewrite(os.Args[2:]))
	default:
		fmt.Fprintln(os.Stderr, "unknown command")
		os.Exit(2)
	}
}

var excludeFiles = map[string]bool{}

func loadProgram(dir, pkgPat, goos string, overlayDirs []string, tags string) (*ssa.Program, *ssa.Package, string, []string, error) {
	overlay := map[string][]byte{}
	var injected []string
	absDir, _ := filepath.Abs(dir)
	pkgDir := filepath.Join(absDir, pkgPat)
	for _, od := range overlayDirs {
		ents, err := os.ReadDir(od)
		if err != nil {
			return nil, nil, "", nil, err
		}
		for _, e := range ents {
			if e.IsDir() || !strings.HasSuffix(e.Name(), ".go") || excludeFiles[e.Name()] {
				continue
			}
			b, err := os.ReadFile(filepath.Join(od, e.Name()))
			if err != nil {
				return nil, nil, "", nil, err
			}
			virt := filepath.Join(pkgDir, "zz_verif_"+e.Name())
			overlay[virt] = b
			injected = append(injected, virt)
		}
	}
	env := append(os.Environ(), "GOOS="+goos, "GOARCH=amd64", "CGO_ENABLED=0", "GOFLAGS=-mod=mod", "GOPROXY=off", "GOSUMDB=off", "GOTOOLCHAIN=local")
	cfg := &packages.Config{
		Mode:    packages.LoadAllSyntax | packages.NeedModule,
		Dir:     absDir,
		Env:     env,
		Overlay: overlay,
	}
	if tags != "" {
		cfg.BuildFlags = []string{"-tags=" + tags}
	}
	pat := "./" + pkgPat
	pkgs, err := packages.Load(cfg, pat)
	if err != nil {
		return nil, nil, "", nil, err
	}
	if len(pkgs) != 1 {
		return nil, nil, "", nil, fmt.Errorf("expected one package, got %d", len(pkgs))
	}
	nerr := 0
	packages.Visit(pkgs, nil, func(p *packages.Package) {
		for _, e := range p.Errors {
			fmt.Fprintln(os.Stderr, "load error:", e)
			nerr++
		}
	})
	if nerr > 0 {
		return nil, nil, "", nil, fmt.Errorf("%d load errors", nerr)
	}
	prog, spkgs := ssautil.AllPackages(pkgs, ssa.BuilderMode(0))
	prog.Build()
	mod := ""
	if pkgs[0].Module != nil {
		mod = pkgs[0].Module.Path
	}
	return prog, spkgs[0], mod, injected, nil
}

func cmdRun(argv []string) int {
	fs := flag.NewFlagSet("run", flag.ExitOnError)
	dir := fs.String("dir", "/repo", "module directory")
	pkgPat := fs.String("pkg", ".", "package directory relative to -dir")
	goos := fs.String("goos", "linux", "GOOS to load for")
	var overlays multiFlag
	fs.Var(&overlays, "overlay", "directory of harness .go files to inject into the package (repeatable)")
	var harnesses multiFlag
	fs.Var(&harnesses, "harness", "harness function name (repeatable)")
	var params multiFlag
	fs.Var(&params, "param", "NAME=int (repeatable)")
	seamsFile := fs.String("seams", "", "JSON file: callee -> stub function")
	unwind := fs.Int("unwind", 40, "max two-sided symbolic forks per site per frame")
	strcap := fs.Int("strcap", 32, "cap on symbolic string lengths")
	maxInstr := fs.Int("maxinstr", 20000000, "instruction budget per path")
	maxPaths := fs.Int("maxpaths", 2000000, "path budget")
	preempt := fs.Int("preempt", 0, "pre-emption budget")
	workers := fs.Int("j", runtime.NumCPU(), "parallel workers")
	solverBin := fs.String("solver", "z3", "solver binary")
	timeoutMs := fs.Int("timeout", 120000, "solver timeout per query (ms)")
	noMerge := fs.Bool("nomerge", false, "disable diamond merging")
	races := fs.Bool("races", false, "happens-before race detection")
	out := fs.String("out", "", "write JSON summary here (default stdout)")
	smtlog := fs.String("smtlog", "", "directory for solver transcripts (one worker only)")
	tags := fs.String("tags", "", "build tags")
	maxFail := fs.Int("maxfail", 5, "stop after this many failing paths per harness")
	cpuprof := fs.String("cpuprofile", "", "write CPU profile")
	var excl multiFlag
	fs.Var(&excl, "exclude", "harness file name to leave out of the overlay (repeatable)")
	deadline := fs.Int("deadline", 0, "stop exploring a harness after this many seconds (outcome: budget)")
	fs.Parse(argv)
	for _, e := range excl {
		excludeFiles[e] = true
	}
	if *cpuprof != "" {
		f, _ := os.Create(*cpuprof)
		pprof.StartCPUProfile(f)
		defer pprof.StopCPUProfile()
	}

	t0 := time.Now()
	prog, pkg, mod, _, err := loadProgram(*dir, *pkgPat, *goos, overlays, *tags)
	if err != nil {
		fmt.Fprintln(os.Stderr, "gosym: load:", err)
		return 3
	}
	loadSecs := time.Since(t0).Seconds()
	seams := map[string]string{}
	if *seamsFile != "" {
		b, err := os.ReadFile(*seamsFile)
		if err != nil {
			fmt.Fprintln(os.Stderr, "gosym:", err)
			return 3
		}
		var all map[string]map[string]string
		if err := json.Unmarshal(b, &all); err != nil {
			fmt.Fprintln(os.Stderr, "gosym: seams:", err)
			return 3
		}
		for k, v := range all[*goos] {
			seams[k] = v
		}
		for k, v := range all["all"] {
			seams[k] = v
		}
	}
	pm := map[string]int{}
	for _, p := range params {
		kv := strings.SplitN(p, "=", 2)
		if len(kv) != 2 {
			fmt.Fprintln(os.Stderr, "bad -param", p)
			return 3
		}
		v, err := strconv.Atoi(kv[1])
		if err != nil {
			fmt.Fprintln(os.Stderr, "bad -param", p)
			return 3
		}
		pm[kv[0]] = v
	}
	var sums []*Summary
	rc := 0
	for _, h := range harnesses {
		fn := pkg.Func(h)
		if fn == nil {
			fmt.Fprintf(os.Stderr, "gosym: harness %s not found in %s\n", h, pkg.Pkg.Path())
			return 3
		}
		cfg := &Config{Prog: prog, Pkg: pkg, Harness: fn, Params: pm, Seams: seams, Unwind: *unwind, StrCap: *strcap,
			MaxInstr: *maxInstr, Preempt: *preempt, NoMerge: *noMerge, Races: *races, ModulePath: mod}
		sum := explore(cfg, *workers, *solverBin, *timeoutMs, *maxPaths, *maxFail, *smtlog, *deadline)
		sum.Harness = h
		sum.Params = pm
		sum.Extra = map[string]string{"goos": *goos, "load_s": fmt.Sprintf("%.2f", loadSecs), "solver": *solverBin}
		sums = append(sums, sum)
		for k, n := range sum.Outcomes {
			if n == 0 {
				continue
			}
			switch Outcome(k) {
			case OutOK, OutInfeasible:
			case OutAssert, OutPanic, OutDeadlock, OutRace, OutMonitor:
				if rc == 0 {
					rc = 1
				}
			default:
				rc = 3
			}
		}
		if len(sum.SolverErrs) > 0 {
			rc = 3
		}
	}
	b, _ := json.MarshalIndent(sums, "", " ")
	if *out != "" {
		os.WriteFile(*out, b, 0o644)
	} else {
		os.Stdout.Write(b)
		fmt.Println()
	}
	return rc
}

func explore(cfg *Config, workers int, solverBin string, timeoutMs, maxPaths, maxFail int, smtlog string, deadline int) *Summary {
	t0 := time.Now()
	sum := &Summary{Outcomes: map[string]int{}, FnInstr: map[string]int{}}
	var mu sync.Mutex
	cond := sync.NewCond(&mu)
	work := [][]int{nil}
	active := 0
	reach := map[string]bool{}
	stop := false
	if smtlog != "" {
		workers = 1
	}
	cfg.Publish = func(w []int) {
		mu.Lock()
		work = append(work, w)
		mu.Unlock()
		cond.Signal()
	}
	nsamp := 0
	cfg.NeedSample = func() bool {
		mu.Lock()
		defer mu.Unlock()
		if nsamp >= 6 {
			return false
		}
		nsamp++
		return true
	}
	cfg.Witnessed = func(tag string) bool {
		mu.Lock()
		defer mu.Unlock()
		return reach[tag]
	}
	var wg sync.WaitGroup
	solverArgs := []string{"-in"}
	if strings.Contains(solverBin, "cvc5") {
		solverArgs = []string{"--incremental", "--lang=smt2"}
	}
	var solvers []*Solver
	for w := 0; w < workers; w++ {
		sol, err := NewSolver(solverBin, solverArgs, timeoutMs)
		if err != nil {
			fmt.Fprintln(os.Stderr, "gosym: solver:", err)
			os.Exit(3)
		}
		if smtlog != "" {
			os.MkdirAll(smtlog, 0o755)
			f, _ := os.Create(filepath.Join(smtlog, "session.smt2"))
			sol.Log = f
		}
		solvers = append(solvers, sol)
		wg.Add(1)
		go func(sol *Solver) {
			defer wg.Done()
			for {
				mu.Lock()
				for len(work) == 0 && active > 0 && !stop {
					cond.Wait()
				}
				if stop || (len(work) == 0 && active == 0) {
					mu.Unlock()
					cond.Broadcast()
					return
				}
				// depth-first: take the last item
				item := work[len(work)-1]
				work = work[:len(work)-1]
				active++
				mu.Unlock()

				res := runPath(cfg, sol, item)

				mu.Lock()
				active--
				sum.Paths++
				sum.Outcomes[string(res.Outcome)]++
				sum.Instrs += res.Instrs
				sum.Forks += res.Forks
				sum.Merges += res.Merges
				sum.Oblig += res.Oblig
				sum.ObligTriv += res.ObligTriv
				if len(res.Decisions) > sum.MaxDepth {
					sum.MaxDepth = len(res.Decisions)
				}
				for k, v := range res.FnInstr {
					sum.FnInstr[k] += v
				}
				for k := range res.Reach {
					reach[k] = true
				}
				if res.Outcome != OutOK && res.Outcome != OutInfeasible {
					if len(sum.Failures) < maxFail {
						res.NewWork = nil
						res.FnInstr = nil
						sum.Failures = append(sum.Failures, res)
					}
					nf := 0
					for k, n := range sum.Outcomes {
						if k != string(OutOK) && k != string(OutInfeasible) {
							nf += n
						}
					}
					if nf >= maxFail {
						stop = true
					}
				} else if res.Outcome == OutOK && res.Sampled && len(sum.Samples) < 6 {
					sum.Samples = append(sum.Samples, map[string]interface{}{"decisions": res.Decisions, "instrs": res.Instrs, "obligations": res.Oblig, "notes": res.Events, "nondet": res.Nondet})
				} else if res.Outcome == OutOK && len(sum.Samples) == 0 {
					sum.Samples = append(sum.Samples, map[string]interface{}{"decisions": res.Decisions, "instrs": res.Instrs, "obligations": res.Oblig, "notes": res.Events})
				}
				work = append(work, res.NewWork...)
				if sum.Paths >= maxPaths || (deadline > 0 && time.Since(t0).Seconds() > float64(deadline) && !stop) {
					stop = true
					sum.Outcomes[string(OutBudget)]++
				}
				mu.Unlock()
				cond.Broadcast()
			}
		}(sol)
	}
	wg.Wait()
	for _, s := range solvers {
		sum.Queries += s.Queries
		sum.Sat += s.NSat
		sum.Unsat += s.NUnsat
		sum.UnknownQ += s.NUnk
		sum.SolverSecs += s.Time.Seconds()
		sum.SolverErrs = append(sum.SolverErrs, s.Errors...)
		s.Close()
	}
	if len(sum.SolverErrs) > 10 {
		sum.SolverErrs = sum.SolverErrs[:10]
	}
	sum.Reach = sortedKeys(reach)
	sort.Slice(sum.Failures, func(i, j int) bool { return len(sum.Failures[i].Decisions) < len(sum.Failures[j].Decisions) })
	sum.WallSecs = time.Since(t0).Seconds()
	return sum
}
