package main

import (
	"fmt"
	"go/types"

	"golang.org/x/tools/go/ssa"
)

// Value is one of: *Term (ints, bools), *StrV, *PtrV, *SliceV, *MapV, *ChanV,
// *FuncV, *IfaceV, *StructV, *ArrV, *RawArrV, TupleV, *IterV.
type Value interface{}

// Cell is an addressable memory location. Scalars hold V; structs and
// non-byte arrays hold Kids; byte arrays are "raw": one SMT array term.
type Cell struct {
	ID     int
	Typ    types.Type
	V      Value
	Kids   []*Cell
	Raw    bool
	RawArr *Term
	RawLen int
	Name   string
	Global bool
	Owner  int // owner tag for ownership monitors (0 = none)
}

type StrV struct {
	Conc bool
	S    string  // when Conc
	B    []*Term // when !Conc: byte terms (capacity)
	N    *Term   // when !Conc: length, BV64, N <= len(B)
}

type PtrV struct {
	Cell *Cell // nil => nil pointer
	Off  *Term // BV64 byte offset into a raw cell; nil when pointing at the cell itself
	Fn   *ssa.Function
}

type SliceV struct {
	Cell *Cell // backing array cell (raw or with Kids); nil => nil slice
	Off  *Term // BV64: element offset (bytes for raw)
	Len  *Term // BV64
	Cap  *Term // BV64
}

type mapEntry struct {
	K       Value
	V       Value
	Deleted bool
}

type MapObj struct {
	ID      int
	Owner   int
	Entries []*mapEntry
	Typ     *types.Map
}

type MapV struct{ M *MapObj }

type ChanObj struct {
	ID     int
	Cap    *Term // BV64
	Buf    []Value
	Closed bool
	Typ    types.Type
	Name   string
	// monitors
	SendLog []int // goroutine ids that sent
	CloseBy []int
	closeVC []int
}

type ChanV struct{ C *ChanObj }

type FuncV struct {
	Fn    *ssa.Function
	Binds []Value
	Bi    *ssa.Builtin
}

type IfaceV struct {
	Typ types.Type // nil => nil interface
	V   Value
}

type StructV struct{ F []Value }
type ArrV struct{ E []Value }
type RawArrV struct {
	Arr *Term
	N   int
}
type TupleV []Value

type IterV struct {
	M    *MapObj
	Ents []*mapEntry
	I    int
	Str  *StrV
}

func (p *PtrV) IsNil() bool { return p.Cell == nil && p.Fn == nil }

func isByte(t types.Type) bool {
	b, ok := t.Underlying().(*types.Basic)
	return ok && (b.Kind() == types.Uint8 || b.Kind() == types.Int8)
}

func intWidth(t types.Type) (int, bool) {
	b, ok := t.Underlying().(*types.Basic)
	if !ok {
		return 0, false
	}
	switch b.Kind() {
	case types.Int8, types.Uint8:
		return 8, true
	case types.Int16, types.Uint16:
		return 16, true
	case types.Int32, types.Uint32:
		return 32, true
	case types.Int, types.Uint, types.Int64, types.Uint64, types.Uintptr, types.UntypedInt, types.UntypedRune:
		return 64, true
	}
	return 0, false
}

func isSigned(t types.Type) bool {
	b, ok := t.Underlying().(*types.Basic)
	if !ok {
		return false
	}
	return b.Info()&types.IsUnsigned == 0 && b.Info()&types.IsInteger != 0
}

func isBool(t types.Type) bool {
	b, ok := t.Underlying().(*types.Basic)
	return ok && b.Info()&types.IsBoolean != 0
}

func isString(t types.Type) bool {
	b, ok := t.Underlying().(*types.Basic)
	return ok && b.Info()&types.IsString != 0
}

func (ex *Exec) concStr(s string) *StrV { return &StrV{Conc: true, S: s} }

// strBytes returns byte terms and length term for any string.
func (ex *Exec) strBytes(s *StrV) ([]*Term, *Term) {
	if !s.Conc {
		return s.B, s.N
	}
	b := make([]*Term, len(s.S))
	for i := 0; i < len(s.S); i++ {
		b[i] = ex.ts.BV(uint64(s.S[i]), 8)
	}
	return b, ex.ts.BV(uint64(len(s.S)), 64)
}

// normStr turns an all-constant symbolic string into a concrete one.
func (ex *Exec) normStr(s *StrV) *StrV {
	if s.Conc {
		return s
	}
	if !s.N.IsConst() {
		return s
	}
	n := int(s.N.Val)
	if n > len(s.B) {
		return s
	}
	bs := make([]byte, n)
	for i := 0; i < n; i++ {
		if !s.B[i].IsConst() {
			return s
		}
		bs[i] = byte(s.B[i].Val)
	}
	return &StrV{Conc: true, S: string(bs)}
}

func (ex *Exec) strLen(s *StrV) *Term {
	if s.Conc {
		return ex.ts.BV(uint64(len(s.S)), 64)
	}
	return s.N
}

// strEq returns a Bool term for a == b.
func (ex *Exec) strEq(a, b *StrV) *Term {
	if a.Conc && b.Conc {
		return ex.ts.Bool(a.S == b.S)
	}
	ab, an := ex.strBytes(a)
	bb, bn := ex.strBytes(b)
	ts := ex.ts
	r := ts.Eq(an, bn)
	if r.IsFalse() {
		return r
	}
	n := len(ab)
	if len(bb) > n {
		n = len(bb)
	}
	for i := 0; i < n; i++ {
		idx := ts.BV(uint64(i), 64)
		in := ts.Ult(idx, an)
		if in.IsFalse() {
			break
		}
		var e *Term
		if i < len(ab) && i < len(bb) {
			e = ts.Eq(ab[i], bb[i])
		} else {
			// one string cannot be this long; then lengths differ or index beyond
			if i >= len(ab) {
				e = ts.Not(ts.Ult(idx, bn)) // b must not be longer: covered by an==bn and an<=len(ab)
			} else {
				e = ts.Not(ts.Ult(idx, an))
			}
		}
		r = ts.And(r, ts.Implies(in, e))
		if r.IsFalse() {
			return r
		}
	}
	return r
}

func (ex *Exec) strConcat(a, b *StrV) *StrV {
	if a.Conc && b.Conc {
		return ex.concStr(a.S + b.S)
	}
	if a.Conc && a.S == "" {
		return b
	}
	if b.Conc && b.S == "" {
		return a
	}
	ab, an := ex.strBytes(a)
	bb, bn := ex.strBytes(b)
	if !an.IsConst() {
		// general case: result[j] = j<an ? a[j] : b[j-an]; only small sizes
		ts := ex.ts
		n := len(ab) + len(bb)
		if n > 600 {
			ex.unsupported("string concat with symbolic-length prefix too large")
		}
		out := make([]*Term, n)
		for j := 0; j < n; j++ {
			jj := ts.BV(uint64(j), 64)
			var v *Term = ts.BV(0, 8)
			// b part: for each possible k = j - an
			for k := 0; k < len(bb) && k <= j; k++ {
				// an == j-k
				v = ts.Ite(ts.Eq(an, ts.BV(uint64(j-k), 64)), bb[k], v)
			}
			if j < len(ab) {
				v = ts.Ite(ts.Ult(jj, an), ab[j], v)
			}
			out[j] = v
		}
		return &StrV{B: out, N: ts.Add(an, bn)}
	}
	na := int(an.Val)
	out := make([]*Term, 0, na+len(bb))
	out = append(out, ab[:na]...)
	out = append(out, bb...)
	return ex.normStr(&StrV{B: out, N: ex.ts.Add(an, bn)})
}

func (ex *Exec) valString(v Value) string {
	switch x := v.(type) {
	case nil:
		return "<nil>"
	case *Term:
		return x.String()
	case *StrV:
		if x.Conc {
			return fmt.Sprintf("%q", x.S)
		}
		return fmt.Sprintf("symstr(cap=%d)", len(x.B))
	case *PtrV:
		if x.IsNil() {
			return "nilptr"
		}
		if x.Fn != nil {
			return "fnptr"
		}
		return fmt.Sprintf("&cell%d", x.Cell.ID)
	case *IfaceV:
		if x.Typ == nil {
			return "nil-iface"
		}
		return fmt.Sprintf("iface(%s,%s)", x.Typ, ex.valString(x.V))
	case *StructV:
		s := "{"
		for i, f := range x.F {
			if i > 0 {
				s += " "
			}
			s += ex.valString(f)
		}
		return s + "}"
	}
	return fmt.Sprintf("%T", v)
}

// identical is types.Identical extended to engine model types.
func identical(a, b types.Type) bool {
	_, ma := a.(*modelType)
	_, mb := b.(*modelType)
	if ma || mb {
		return a == b
	}
	return types.Identical(a, b)
}
