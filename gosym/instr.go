package main

import (
	"fmt"
	"strings"
	"go/constant"
	"go/token"
	"go/types"

	"golang.org/x/tools/go/ssa"
)

type deferred struct {
	fn   Value
	args []Value
	call *ssa.CallCommon
}

type Frame struct {
	fn     *ssa.Function
	block  *ssa.BasicBlock
	prev   *ssa.BasicBlock
	ip     int
	locals map[ssa.Value]Value
	binds  []Value
	defers []*deferred
	result ssa.Value // call instruction in the caller receiving the result (nil: discard)
	// arm capture for merging: when set, Return stores values here instead of popping
	captureRet bool
	retVals    Value
	retDone    bool
	runningDefers bool
	onRet      func(v Value) // engine continuation (models that call back into code)
	visits     map[*ssa.BasicBlock]int
}

func (ex *Exec) initGlobals() {
	for _, pkg := range ex.cfg.Prog.AllPackages() {
		if !ex.ownPkg(pkg.Pkg) {
			continue
		}
		for _, m := range pkg.Members {
			if g, ok := m.(*ssa.Global); ok {
				c := ex.newCell(g.Type().(*types.Pointer).Elem(), g.Name())
				c.Global = true
				ex.globals[g] = c
			}
		}
	}
}

func (ex *Exec) ownPkg(p *types.Package) bool {
	if p == nil {
		return false
	}
	path := p.Path()
	mp := ex.cfg.ModulePath
	return path == mp || len(path) > len(mp) && path[:len(mp)+1] == mp+"/"
}

func (ex *Exec) globalCell(g *ssa.Global) *Cell {
	if c, ok := ex.globals[g]; ok {
		return c
	}
	// foreign global: lazily allocated with model initialisation
	c := ex.newCell(g.Type().(*types.Pointer).Elem(), g.String())
	c.Global = true
	ex.globals[g] = c
	ex.initForeignGlobal(g, c)
	return c
}

func (ex *Exec) constValue(c *ssa.Const) Value {
	t := c.Type()
	if c.Value == nil {
		return ex.zero(t)
	}
	if w, ok := intWidth(t); ok {
		if v, exact := constant.Uint64Val(constant.ToInt(c.Value)); exact {
			return ex.ts.BV(v, w)
		}
		v, _ := constant.Int64Val(constant.ToInt(c.Value))
		return ex.ts.BV(uint64(v), w)
	}
	if isBool(t) {
		return ex.ts.Bool(constant.BoolVal(c.Value))
	}
	if isString(t) {
		return ex.concStr(constant.StringVal(c.Value))
	}
	ex.unsupported("constant of type " + t.String())
	return nil
}

func (ex *Exec) get(fr *Frame, v ssa.Value) Value {
	switch x := v.(type) {
	case *ssa.Const:
		return ex.constValue(x)
	case *ssa.Global:
		return &PtrV{Cell: ex.globalCell(x)}
	case *ssa.Function:
		return &FuncV{Fn: x}
	case *ssa.Builtin:
		return &FuncV{Bi: x}
	case *ssa.FreeVar:
		for i, fv := range fr.fn.FreeVars {
			if fv == x {
				return fr.binds[i]
			}
		}
		ex.unsupported("free var not found")
	}
	val, ok := fr.locals[v]
	if !ok {
		ex.unsupported(fmt.Sprintf("use of undefined SSA value %s in %s", v.Name(), fr.fn))
	}
	return val
}

func (ex *Exec) getT(fr *Frame, v ssa.Value) *Term {
	x := ex.get(fr, v)
	t, ok := x.(*Term)
	if !ok {
		ex.unsupported(fmt.Sprintf("expected scalar, got %T for %s", x, v))
	}
	return t
}

func (ex *Exec) pushFrame(g *G, fn *ssa.Function, args []Value, binds []Value, result ssa.Value) *Frame {
	if fn.Blocks == nil {
		ex.unsupported("call of function without body: " + fn.String())
	}
	if len(g.stack) > 200 {
		ex.end(OutUnwind, "recursion depth > 200")
	}
	fr := &Frame{fn: fn, block: fn.Blocks[0], locals: make(map[ssa.Value]Value, 16), binds: binds, result: result}
	for i, p := range fn.Params {
		if i < len(args) {
			fr.locals[p] = args[i]
		}
	}
	g.stack = append(g.stack, fr)
	return fr
}

func (ex *Exec) jump(fr *Frame, to *ssa.BasicBlock) {
	fr.prev = fr.block
	fr.block = to
	fr.ip = 0
	// livelock detection: a loop of the code under test that keeps spinning
	if to.Index <= fr.prev.Index && ex.merging == 0 {
		if fr.visits == nil {
			fr.visits = map[*ssa.BasicBlock]int{}
		}
		fr.visits[to]++
		if fr.visits[to] > 5000 && ex.ownPkg(pkgOf(fr.fn)) && !strings.HasPrefix(fr.fn.Name(), "H_") && !strings.HasPrefix(fr.fn.Name(), "verif") {
			ex.end(OutDeadlock, "livelock: loop in "+fr.fn.String()+" does not terminate (more than 5000 iterations in one call)")
		}
	}
}

// step executes one instruction of g's top frame.
func (ex *Exec) step(g *G) {
	fr := g.stack[len(g.stack)-1]
	instr := fr.block.Instrs[fr.ip]
	ex.lastInstr = instr
	ex.res.Instrs++
	if ex.res.Instrs > ex.cfg.MaxInstr {
		ex.end(OutBudget, "instruction budget exhausted")
	}
	if ex.ownPkg(pkgOf(fr.fn)) {
		ex.res.FnInstr[fr.fn.String()]++
	}
	fr.ip++
	switch in := instr.(type) {
	case *ssa.DebugRef:
	case *ssa.Alloc:
		c := ex.newCell(in.Type().(*types.Pointer).Elem(), in.Comment)
		fr.locals[in] = &PtrV{Cell: c}
	case *ssa.Phi:
		// evaluate all phis of the block simultaneously
		ex.evalPhis(fr)
	case *ssa.BinOp:
		fr.locals[in] = ex.binop(in.Op, in.X.Type(), ex.get(fr, in.X), ex.get(fr, in.Y), in.Y.Type())
	case *ssa.UnOp:
		fr.locals[in] = ex.unop(g, fr, in)
	case *ssa.Store:
		p := ex.get(fr, in.Addr).(*PtrV)
		ex.store(p, in.Val.Type(), ex.get(fr, in.Val))
	case *ssa.FieldAddr:
		p := ex.get(fr, in.X).(*PtrV)
		if p.IsNil() {
			ex.goPanic("nil pointer dereference (field address)")
		}
		st := in.X.Type().Underlying().(*types.Pointer).Elem().Underlying().(*types.Struct)
		if p.Cell.Raw {
			offs := sizes.Offsetsof(structFields(st))
			off := p.Off
			if off == nil {
				off = ex.ts.BV(0, 64)
			}
			fr.locals[in] = &PtrV{Cell: p.Cell, Off: ex.ts.Add(off, ex.ts.BV(uint64(offs[in.Field]), 64))}
		} else {
			if in.Field >= len(p.Cell.Kids) {
				ex.unsupported("FieldAddr on non-struct cell " + p.Cell.Typ.String())
			}
			fr.locals[in] = &PtrV{Cell: p.Cell.Kids[in.Field]}
		}
	case *ssa.Field:
		sv := ex.get(fr, in.X).(*StructV)
		fr.locals[in] = sv.F[in.Field]
	case *ssa.IndexAddr:
		fr.locals[in] = ex.indexAddr(fr, in)
	case *ssa.Index:
		fr.locals[in] = ex.index(fr, in)
	case *ssa.Extract:
		fr.locals[in] = ex.get(fr, in.Tuple).(TupleV)[in.Index]
	case *ssa.ChangeType:
		fr.locals[in] = ex.get(fr, in.X)
	case *ssa.ChangeInterface:
		fr.locals[in] = ex.get(fr, in.X)
	case *ssa.Convert:
		fr.locals[in] = ex.convert(ex.get(fr, in.X), in.X.Type(), in.Type())
	case *ssa.MakeInterface:
		fr.locals[in] = &IfaceV{Typ: in.X.Type(), V: ex.get(fr, in.X)}
	case *ssa.TypeAssert:
		fr.locals[in] = ex.typeAssert(fr, in)
	case *ssa.MakeClosure:
		b := make([]Value, len(in.Bindings))
		for i, x := range in.Bindings {
			b[i] = ex.get(fr, x)
		}
		fr.locals[in] = &FuncV{Fn: in.Fn.(*ssa.Function), Binds: b}
	case *ssa.MakeMap:
		ex.objSeq++
		fr.locals[in] = &MapV{M: &MapObj{ID: ex.objSeq, Owner: ex.curOwner, Typ: in.Type().Underlying().(*types.Map)}}
	case *ssa.MakeChan:
		sz := ex.getT(fr, in.Size)
		sz = ex.toWidth(sz, in.Size.Type(), 64)
		ex.require(ex.ts.Not(ex.ts.Slt(sz, ex.ts.BV(0, 64))), "makechan: size out of range")
		fr.locals[in] = &ChanV{C: ex.newChan(sz, in.Type(), "")}
	case *ssa.MakeSlice:
		fr.locals[in] = ex.makeSlice(fr, in)
	case *ssa.Slice:
		fr.locals[in] = ex.sliceOp(fr, in)
	case *ssa.Lookup:
		fr.locals[in] = ex.lookup(fr, in)
	case *ssa.MapUpdate:
		m := ex.get(fr, in.Map).(*MapV)
		if m.M == nil {
			ex.goPanic("assignment to entry in nil map")
		}
		ex.mapUpdate(m.M, ex.get(fr, in.Key), ex.get(fr, in.Value))
	case *ssa.Range:
		fr.locals[in] = ex.rangeOp(fr, in)
	case *ssa.Next:
		fr.locals[in] = ex.next(fr, in)
	case *ssa.Jump:
		ex.jump(fr, fr.block.Succs[0])
	case *ssa.If:
		ex.execIf(g, fr, in)
	case *ssa.Return:
		ex.doReturn(g, fr, in)
	case *ssa.RunDefers:
		if len(fr.defers) > 0 {
			d := fr.defers[len(fr.defers)-1]
			fr.defers = fr.defers[:len(fr.defers)-1]
			fr.ip-- // come back here after the deferred call
			ex.invoke(g, fr, d.fn, d.args, nil, d.call)
		}
	case *ssa.Defer:
		fn, args := ex.prepareCall(fr, &in.Call)
		fr.defers = append(fr.defers, &deferred{fn: fn, args: args, call: &in.Call})
	case *ssa.Go:
		fn, args := ex.prepareCall(fr, &in.Call)
		ex.spawn(g, fn, args, &in.Call)
	case *ssa.Call:
		fn, args := ex.prepareCall(fr, &in.Call)
		ex.invoke(g, fr, fn, args, in, &in.Call)
	case *ssa.Panic:
		ex.goPanic("explicit panic: " + ex.valString(ex.get(fr, in.X)))
	case *ssa.Send:
		ex.chanSend(g, fr, in)
	case *ssa.Select:
		ex.selectOp(g, fr, in)
	default:
		ex.unsupported(fmt.Sprintf("instruction %T", instr))
	}
}

func pkgOf(fn *ssa.Function) *types.Package {
	for fn != nil {
		if fn.Pkg != nil {
			return fn.Pkg.Pkg
		}
		if fn.Parent() != nil {
			fn = fn.Parent()
			continue
		}
		if o := fn.Origin(); o != nil && o != fn {
			fn = o
			continue
		}
		if fn.Object() != nil {
			return fn.Object().Pkg()
		}
		// wrappers / bound methods
		if fn.Signature.Recv() != nil {
			return fn.Signature.Recv().Pkg()
		}
		return nil
	}
	return nil
}

func (ex *Exec) evalPhis(fr *Frame) {
	// find index of prev among preds
	idx := -1
	for i, p := range fr.block.Preds {
		if p == fr.prev {
			idx = i
			break
		}
	}
	if idx < 0 {
		ex.unsupported("phi: predecessor not found")
	}
	var phis []*ssa.Phi
	for _, in := range fr.block.Instrs {
		if p, ok := in.(*ssa.Phi); ok {
			phis = append(phis, p)
		} else {
			break
		}
	}
	vals := make([]Value, len(phis))
	for i, p := range phis {
		vals[i] = ex.get(fr, p.Edges[idx])
	}
	for i, p := range phis {
		fr.locals[p] = vals[i]
	}
	fr.ip = len(phis)
	ex.res.Instrs += len(phis) - 1
}

func (ex *Exec) toWidth(t *Term, from types.Type, w int) *Term {
	if t.S.W == w {
		return t
	}
	if t.S.W > w {
		return ex.ts.Extract(t, w-1, 0)
	}
	if isSigned(from) {
		return ex.ts.Sext(t, w)
	}
	return ex.ts.Zext(t, w)
}

func (ex *Exec) convert(v Value, from, to types.Type) Value {
	fu, tu := from.Underlying(), to.Underlying()
	if x, ok := v.(*Term); ok {
		if w, ok := intWidth(to); ok && x.S.K == SBV {
			return ex.toWidth(x, from, w)
		}
		if isString(to) && x.S.K == SBV {
			// string(rune)
			if x.IsConst() {
				return ex.concStr(string(rune(x.SVal())))
			}
			ex.unsupported("string(symbolic rune)")
		}
		if tb, ok := tu.(*types.Basic); ok && tb.Kind() == types.UnsafePointer {
			ex.unsupported("uintptr -> unsafe.Pointer")
		}
	}
	switch x := v.(type) {
	case *PtrV:
		// pointer <-> unsafe.Pointer, or pointer -> uintptr
		if _, ok := intWidth(to); ok {
			if x.IsNil() {
				return ex.ts.BV(0, 64)
			}
			ex.unsupported("pointer -> uintptr")
		}
		return x
	case *StrV:
		if sl, ok := tu.(*types.Slice); ok {
			if isByte(sl.Elem()) {
				return ex.strToBytes(x)
			}
			ex.unsupported("string -> []rune")
		}
		if isString(to) {
			return x
		}
	case *SliceV:
		if isString(to) {
			return ex.bytesToStr(x, fu)
		}
		if _, ok := tu.(*types.Slice); ok {
			return x
		}
		if _, ok := tu.(*types.Pointer); ok {
			// slice to array pointer
			ex.unsupported("slice -> array pointer")
		}
	}
	ex.unsupported(fmt.Sprintf("convert %s -> %s (%T)", from, to, v))
	return nil
}

func (ex *Exec) strToBytes(s *StrV) Value {
	b, n := ex.strBytes(s)
	c := ex.newCell(types.NewArray(types.Typ[types.Uint8], int64(len(b))), "bytes")
	arr := c.RawArr
	for i, t := range b {
		arr = ex.ts.Store(arr, ex.ts.BV(uint64(i), 32), t)
	}
	c.RawArr = arr
	return &SliceV{Cell: c, Off: ex.ts.BV(0, 64), Len: n, Cap: ex.ts.BV(uint64(len(b)), 64)}
}

func (ex *Exec) bytesToStr(s *SliceV, from types.Type) Value {
	if s.Cell == nil {
		return ex.concStr("")
	}
	if !s.Cell.Raw {
		ex.unsupported("string(non-byte slice)")
	}
	ex.access(s.Cell, false)
	ts := ex.ts
	capN := ex.cfg.StrCap
	if s.Len.IsConst() {
		capN = int(s.Len.Val)
	} else {
		// bound on symbolic string length
		if !ex.branch(ts.Ule(s.Len, ts.BV(uint64(capN), 64)), "string cap") {
			ex.end(OutBound, fmt.Sprintf("symbolic string longer than cap %d", capN))
		}
	}
	b := make([]*Term, capN)
	for i := 0; i < capN; i++ {
		b[i] = ts.Select(s.Cell.RawArr, ex.off32(ts.Add(s.Off, ts.BV(uint64(i), 64))))
	}
	return ex.normStr(&StrV{B: b, N: s.Len})
}

func (ex *Exec) typeAssert(fr *Frame, in *ssa.TypeAssert) Value {
	iv := ex.get(fr, in.X).(*IfaceV)
	ok := false
	if iv.Typ != nil {
		if _, isModel := iv.Typ.(*modelType); isModel {
			ok = types.IsInterface(in.AssertedType) && in.AssertedType.Underlying().(*types.Interface).NumMethods() <= 1
		} else if types.IsInterface(in.AssertedType) {
			ok = types.Implements(iv.Typ, in.AssertedType.Underlying().(*types.Interface))
		} else {
			ok = identical(iv.Typ, in.AssertedType)
		}
	}
	var res Value
	if ok {
		if types.IsInterface(in.AssertedType) {
			res = iv
		} else {
			res = iv.V
		}
	} else {
		if !in.CommaOk {
			ex.goPanic("interface conversion failed")
		}
		res = ex.zero(in.AssertedType)
	}
	if in.CommaOk {
		return TupleV{res, ex.ts.Bool(ok)}
	}
	return res
}

func (ex *Exec) unop(g *G, fr *Frame, in *ssa.UnOp) Value {
	x := ex.get(fr, in.X)
	switch in.Op {
	case token.MUL:
		return ex.load(x.(*PtrV), in.Type())
	case token.NOT:
		return ex.ts.Not(x.(*Term))
	case token.SUB:
		return ex.ts.Neg(x.(*Term))
	case token.XOR:
		return ex.ts.BNot(x.(*Term))
	case token.ARROW:
		return ex.chanRecv(g, fr, in)
	}
	ex.unsupported("unop " + in.Op.String())
	return nil
}

func (ex *Exec) binop(op token.Token, xt types.Type, a, b Value, yt types.Type) Value {
	ts := ex.ts
	switch x := a.(type) {
	case *Term:
		y, ok := b.(*Term)
		if !ok {
			ex.unsupported("binop operand mismatch")
		}
		if x.S.K == SBool {
			switch op {
			case token.EQL:
				return ts.Eq(x, y)
			case token.NEQ:
				return ts.Not(ts.Eq(x, y))
			case token.LAND, token.AND:
				return ts.And(x, y)
			case token.LOR, token.OR:
				return ts.Or(x, y)
			}
			ex.unsupported("bool binop " + op.String())
		}
		signed := isSigned(xt)
		switch op {
		case token.ADD:
			return ts.Add(x, y)
		case token.SUB:
			return ts.Sub(x, y)
		case token.MUL:
			return ts.Mul(x, y)
		case token.AND:
			return ts.BAnd(x, y)
		case token.OR:
			return ts.BOr(x, y)
		case token.XOR:
			return ts.BXor(x, y)
		case token.AND_NOT:
			return ts.BAnd(x, ts.BNot(y))
		case token.QUO, token.REM:
			ex.require(ts.Not(ts.Eq(y, ts.BV(0, y.S.W))), "integer divide by zero")
			if signed {
				if x.IsConst() && y.IsConst() {
					if op == token.QUO {
						return ts.BV(uint64(x.SVal()/y.SVal()), x.S.W)
					}
					return ts.BV(uint64(x.SVal()%y.SVal()), x.S.W)
				}
				ex.unsupported("symbolic signed division")
			}
			if op == token.QUO {
				return ts.Udiv(x, y)
			}
			return ts.Urem(x, y)
		case token.SHL, token.SHR:
			// shift count: unsigned semantic; bring to x's width with saturation
			var sh *Term
			if y.S.W > x.S.W {
				if y.IsConst() {
					v := y.Val
					if v > uint64(x.S.W) {
						v = uint64(x.S.W)
					}
					sh = ts.BV(v, x.S.W)
				} else {
					big := ts.Not(ts.Ult(y, ts.BV(uint64(x.S.W), y.S.W)))
					sh = ts.Ite(big, ts.BV(uint64(x.S.W), x.S.W), ts.Extract(y, x.S.W-1, 0))
				}
			} else {
				sh = ts.Zext(y, x.S.W)
			}
			if op == token.SHL {
				return ts.Shl(x, sh)
			}
			if signed {
				return ts.Ashr(x, sh)
			}
			return ts.Lshr(x, sh)
		case token.EQL:
			return ts.Eq(x, y)
		case token.NEQ:
			return ts.Not(ts.Eq(x, y))
		case token.LSS:
			if signed {
				return ts.Slt(x, y)
			}
			return ts.Ult(x, y)
		case token.LEQ:
			if signed {
				return ts.Sle(x, y)
			}
			return ts.Ule(x, y)
		case token.GTR:
			if signed {
				return ts.Slt(y, x)
			}
			return ts.Ult(y, x)
		case token.GEQ:
			if signed {
				return ts.Sle(y, x)
			}
			return ts.Ule(y, x)
		}
	case *StrV:
		y := b.(*StrV)
		switch op {
		case token.ADD:
			return ex.strConcat(x, y)
		case token.EQL:
			return ex.strEq(x, y)
		case token.NEQ:
			return ts.Not(ex.strEq(x, y))
		case token.LSS, token.LEQ, token.GTR, token.GEQ:
			if x.Conc && y.Conc {
				switch op {
				case token.LSS:
					return ts.Bool(x.S < y.S)
				case token.LEQ:
					return ts.Bool(x.S <= y.S)
				case token.GTR:
					return ts.Bool(x.S > y.S)
				case token.GEQ:
					return ts.Bool(x.S >= y.S)
				}
			}
			ex.unsupported("ordering of symbolic strings")
		}
	}
	switch op {
	case token.EQL:
		return ex.valueEq(a, b)
	case token.NEQ:
		return ts.Not(ex.valueEq(a, b))
	}
	ex.unsupported(fmt.Sprintf("binop %s on %T", op, a))
	return nil
}

// valueEq returns a Bool term for Go's == on two values.
func (ex *Exec) valueEq(a, b Value) *Term {
	ts := ex.ts
	switch x := a.(type) {
	case *Term:
		if y, ok := b.(*Term); ok && x.S == y.S {
			return ts.Eq(x, y)
		}
		return ts.False()
	case *StrV:
		if y, ok := b.(*StrV); ok {
			return ex.strEq(x, y)
		}
		return ts.False()
	case *PtrV:
		y, ok := b.(*PtrV)
		if !ok {
			return ts.False()
		}
		if x.Cell != y.Cell || x.Fn != y.Fn {
			return ts.False()
		}
		if x.Off == nil && y.Off == nil {
			return ts.True()
		}
		xo, yo := x.Off, y.Off
		if xo == nil {
			xo = ts.BV(0, 64)
		}
		if yo == nil {
			yo = ts.BV(0, 64)
		}
		return ts.Eq(xo, yo)
	case *IfaceV:
		y, ok := b.(*IfaceV)
		if !ok {
			return ts.False()
		}
		if x.Typ == nil || y.Typ == nil {
			return ts.Bool(x.Typ == nil && y.Typ == nil)
		}
		if !identical(x.Typ, y.Typ) {
			return ts.False()
		}
		return ex.valueEq(x.V, y.V)
	case *StructV:
		y, ok := b.(*StructV)
		if !ok || len(x.F) != len(y.F) {
			return ts.False()
		}
		r := ts.True()
		for i := range x.F {
			r = ts.And(r, ex.valueEq(x.F[i], y.F[i]))
		}
		return r
	case *ArrV:
		y, ok := b.(*ArrV)
		if !ok || len(x.E) != len(y.E) {
			return ts.False()
		}
		r := ts.True()
		for i := range x.E {
			r = ts.And(r, ex.valueEq(x.E[i], y.E[i]))
		}
		return r
	case *MapV:
		y, ok := b.(*MapV)
		return ts.Bool(ok && x.M == y.M)
	case *ChanV:
		y, ok := b.(*ChanV)
		return ts.Bool(ok && x.C == y.C)
	case *SliceV:
		y, ok := b.(*SliceV)
		// only comparison with nil is legal
		if ok && (x.Cell == nil || y.Cell == nil) {
			return ts.Bool(x.Cell == nil && y.Cell == nil)
		}
	case *FuncV:
		y, ok := b.(*FuncV)
		if ok {
			xn := x.Fn == nil && x.Bi == nil
			yn := y.Fn == nil && y.Bi == nil
			return ts.Bool(xn && yn)
		}
	}
	ex.unsupported(fmt.Sprintf("== on %T", a))
	return nil
}

func (ex *Exec) execIf(g *G, fr *Frame, in *ssa.If) {
	c := ex.getT(fr, in.Cond)
	if c.IsConst() {
		if c.IsTrue() {
			ex.jump(fr, fr.block.Succs[0])
		} else {
			ex.jump(fr, fr.block.Succs[1])
		}
		return
	}
	if v, ok := ex.known(c); ok {
		if v {
			ex.jump(fr, fr.block.Succs[0])
		} else {
			ex.jump(fr, fr.block.Succs[1])
		}
		return
	}
	if ex.merging > 0 {
		if !ex.tryMerge(g, fr, in, c) {
			panic(mergeAbort{"nested region not mergeable"})
		}
		return
	}
	// Let the solver say whether the path condition already decides c.
	switch ex.determine(c) {
	case 0:
		ex.assume(c)
		ex.jump(fr, fr.block.Succs[0])
		return
	case 1:
		ex.assume(ex.ts.Not(c))
		ex.jump(fr, fr.block.Succs[1])
		return
	}
	if !ex.cfg.NoMerge && ex.tryMerge(g, fr, in, c) {
		return
	}
	k := forkKey{fr, in}
	ex.forkCount[k]++
	if ex.forkCount[k] > ex.cfg.Unwind {
		ex.end(OutUnwind, fmt.Sprintf("more than %d symbolic iterations at %s", ex.cfg.Unwind, ex.where()))
	}
	if ex.forkBoth(c) {
		ex.jump(fr, fr.block.Succs[0])
	} else {
		ex.jump(fr, fr.block.Succs[1])
	}
}

func (ex *Exec) doReturn(g *G, fr *Frame, in *ssa.Return) {
	var rv Value
	switch len(in.Results) {
	case 0:
	case 1:
		rv = ex.get(fr, in.Results[0])
	default:
		t := make(TupleV, len(in.Results))
		for i, r := range in.Results {
			t[i] = ex.get(fr, r)
		}
		rv = t
	}
	ex.finishReturn(g, fr, rv)
}

func (ex *Exec) finishReturn(g *G, fr *Frame, rv Value) {
	if fr.captureRet {
		fr.retVals = rv
		fr.retDone = true
		return
	}
	g.stack = g.stack[:len(g.stack)-1]
	if fr.onRet != nil {
		fr.onRet(rv)
		return
	}
	if len(g.stack) == 0 {
		g.done = true
		return
	}
	caller := g.stack[len(g.stack)-1]
	if fr.result != nil {
		caller.locals[fr.result] = rv
	}
}

// ---- indexing, slicing ----

func (ex *Exec) concInt(t *Term, what string) int {
	if !t.IsConst() {
		ex.unsupported("symbolic " + what)
	}
	return int(t.SVal())
}

// pickIndex resolves a possibly symbolic index into [0,n) by forking; panics
// (Go index out of range) on the out-of-range path.
func (ex *Exec) pickIndex(idx *Term, n int, what string) int {
	if idx.IsConst() {
		i := idx.SVal()
		if i < 0 || i >= int64(n) {
			ex.goPanic(fmt.Sprintf("index out of range [%d] with length %d (%s)", i, n, what))
		}
		return int(i)
	}
	guards := make([]*Term, n+1)
	for i := 0; i < n; i++ {
		guards[i] = ex.ts.Eq(idx, ex.ts.BV(uint64(i), idx.S.W))
	}
	guards[n] = ex.ts.Not(ex.ts.Ult(idx, ex.ts.BV(uint64(n), idx.S.W)))
	c := ex.chooseGuarded(guards, "index "+what)
	if c == n {
		ex.goPanic("index out of range (" + what + ")")
	}
	return c
}

func (ex *Exec) indexAddr(fr *Frame, in *ssa.IndexAddr) Value {
	x := ex.get(fr, in.X)
	idx := ex.toWidth(ex.getT(fr, in.Index), in.Index.Type(), 64)
	ts := ex.ts
	switch v := x.(type) {
	case *PtrV: // pointer to array
		if v.IsNil() {
			ex.goPanic("nil pointer dereference (index)")
		}
		at := in.X.Type().Underlying().(*types.Pointer).Elem().Underlying().(*types.Array)
		if v.Cell.Raw {
			ex.require(ts.Ult(idx, ts.BV(uint64(at.Len()), 64)), "index out of range (array)")
			off := v.Off
			if off == nil {
				off = ts.BV(0, 64)
			}
			return &PtrV{Cell: v.Cell, Off: ts.Add(off, idx)}
		}
		i := ex.pickIndex(idx, len(v.Cell.Kids), "array")
		return &PtrV{Cell: v.Cell.Kids[i]}
	case *SliceV:
		if v.Cell == nil {
			ex.goPanic("index out of range (nil slice)")
		}
		if v.Cell.Raw {
			ex.require(ts.Ult(idx, v.Len), "index out of range (slice)")
			return &PtrV{Cell: v.Cell, Off: ts.Add(v.Off, idx)}
		}
		n := ex.concInt(v.Len, "slice length")
		i := ex.pickIndex(idx, n, "slice")
		return &PtrV{Cell: v.Cell.Kids[int(v.Off.Val)+i]}
	}
	ex.unsupported(fmt.Sprintf("IndexAddr on %T", x))
	return nil
}

func (ex *Exec) index(fr *Frame, in *ssa.Index) Value {
	x := ex.get(fr, in.X)
	idx := ex.toWidth(ex.getT(fr, in.Index), in.Index.Type(), 64)
	switch v := x.(type) {
	case *ArrV:
		i := ex.pickIndex(idx, len(v.E), "array value")
		return v.E[i]
	case *RawArrV:
		ex.require(ex.ts.Ult(idx, ex.ts.BV(uint64(v.N), 64)), "index out of range (array)")
		return ex.ts.Select(v.Arr, ex.off32(idx))
	case *StrV:
		return ex.strIndex(v, idx)
	}
	ex.unsupported(fmt.Sprintf("Index on %T", x))
	return nil
}

func (ex *Exec) strIndex(s *StrV, idx *Term) Value {
	if s.Conc {
		i := ex.pickIndex(idx, len(s.S), "string")
		return ex.ts.BV(uint64(s.S[i]), 8)
	}
	ex.require(ex.ts.Ult(idx, s.N), "index out of range (string)")
	if idx.IsConst() {
		if int(idx.Val) < len(s.B) {
			return s.B[idx.Val]
		}
		ex.end(OutBound, "string index beyond cap")
	}
	// symbolic index: ite chain
	var r *Term = ex.ts.BV(0, 8)
	for i := len(s.B) - 1; i >= 0; i-- {
		r = ex.ts.Ite(ex.ts.Eq(idx, ex.ts.BV(uint64(i), 64)), s.B[i], r)
	}
	return r
}

func (ex *Exec) makeSlice(fr *Frame, in *ssa.MakeSlice) Value {
	ln := ex.toWidth(ex.getT(fr, in.Len), in.Len.Type(), 64)
	cp := ex.toWidth(ex.getT(fr, in.Cap), in.Cap.Type(), 64)
	n := ex.concInt(cp, "make cap")
	l := ex.concInt(ln, "make len")
	if l < 0 || n < l {
		ex.goPanic("makeslice: len out of range")
	}
	elem := in.Type().Underlying().(*types.Slice).Elem()
	c := ex.newArrayCell(elem, n)
	return &SliceV{Cell: c, Off: ex.ts.BV(0, 64), Len: ex.ts.BV(uint64(l), 64), Cap: ex.ts.BV(uint64(n), 64)}
}

func (ex *Exec) sliceOp(fr *Frame, in *ssa.Slice) Value {
	ts := ex.ts
	x := ex.get(fr, in.X)
	opt := func(v ssa.Value) *Term {
		if v == nil {
			return nil
		}
		return ex.toWidth(ex.getT(fr, v), v.Type(), 64)
	}
	lo, hi, mx := opt(in.Low), opt(in.High), opt(in.Max)
	if lo == nil {
		lo = ts.BV(0, 64)
	}
	switch v := x.(type) {
	case *StrV:
		if v.Conc {
			n := len(v.S)
			if hi == nil {
				hi = ts.BV(uint64(n), 64)
			}
			if lo.IsConst() && hi.IsConst() {
				l, h := int(lo.SVal()), int(hi.SVal())
				if l < 0 || h > n || l > h {
					ex.goPanic("slice bounds out of range (string)")
				}
				return ex.concStr(v.S[l:h])
			}
			ex.require(ts.And(ts.Ule(lo, hi), ts.Ule(hi, ts.BV(uint64(n), 64))), "slice bounds out of range (string)")
			b, _ := ex.strBytes(v)
			return ex.symSubstr(b, lo, hi)
		}
		if hi == nil {
			hi = v.N
		}
		ex.require(ts.And(ts.Ule(lo, hi), ts.Ule(hi, v.N)), "slice bounds out of range (string)")
		return ex.symSubstr(v.B, lo, hi)
	case *SliceV:
		if v.Cell == nil {
			z := ts.BV(0, 64)
			if hi == nil {
				hi = z
			}
			ex.require(ts.And(ts.Eq(lo, z), ts.Eq(hi, z)), "slice bounds out of range (nil slice)")
			return v
		}
		if hi == nil {
			hi = v.Len
		}
		if mx == nil {
			mx = v.Cap
		}
		ex.require(ts.And(ts.And(ts.Ule(lo, hi), ts.Ule(hi, mx)), ts.Ule(mx, v.Cap)), "slice bounds out of range")
		return &SliceV{Cell: v.Cell, Off: ts.Add(v.Off, lo), Len: ts.Sub(hi, lo), Cap: ts.Sub(mx, lo)}
	case *PtrV:
		if v.IsNil() {
			ex.goPanic("nil pointer dereference (slice of array pointer)")
		}
		at := in.X.Type().Underlying().(*types.Pointer).Elem().Underlying().(*types.Array)
		n := ts.BV(uint64(at.Len()), 64)
		if hi == nil {
			hi = n
		}
		if mx == nil {
			mx = n
		}
		ex.require(ts.And(ts.And(ts.Ule(lo, hi), ts.Ule(hi, mx)), ts.Ule(mx, n)), "slice bounds out of range")
		if v.Cell.Raw {
			off := v.Off
			if off == nil {
				off = ts.BV(0, 64)
			}
			// unsafe view: the slice must stay inside the underlying object
			end := ts.Add(off, mx)
			if !ex.branch(ts.And(ts.Ule(end, ts.BV(uint64(v.Cell.RawLen), 64)), ts.Ule(off, end)), "unsafe slice extent") {
				ex.end(OutPanic, "unsafe: slice of reinterpreted array extends beyond the underlying buffer (out-of-bounds read)")
			}
			return &SliceV{Cell: v.Cell, Off: ts.Add(off, lo), Len: ts.Sub(hi, lo), Cap: ts.Sub(mx, lo)}
		}
		return &SliceV{Cell: v.Cell, Off: lo, Len: ts.Sub(hi, lo), Cap: ts.Sub(mx, lo)}
	}
	ex.unsupported(fmt.Sprintf("Slice on %T", x))
	return nil
}

func (ex *Exec) symSubstr(b []*Term, lo, hi *Term) Value {
	if !lo.IsConst() {
		ex.unsupported("string slice with symbolic low bound")
	}
	l := int(lo.Val)
	if l > len(b) {
		l = len(b)
	}
	return ex.normStr(&StrV{B: b[l:], N: ex.ts.Sub(hi, lo)})
}
