#!/bin/sh
# dev helper: run harnesses and print a one-line summary each
cd /verif
./bin/gosym run "$@" | python3 -c "
import json,sys
for s in json.load(sys.stdin):
    print(s['harness'],'paths',s['paths'],s['outcomes'],'instr',s['instrs'],'forks',s['forks'],'merges',s['merges'],'oblig',s['obligations_discharged'],'+',s['obligations_concrete'],'q',s['solver_queries'],'st',round(s['solver_time_s'],2),'wall',round(s['wall_s'],2),s['reach_witnessed'])
    for f in (s['failures'] or [])[:4]: print('  FAIL',f['outcome'],'|',f['msg'],'|',f['where'],'|',[(n['tag'],n['val']) for n in (f['nondet'] or [])][:40], f.get('notes'))
    if s['solver_errors']: print('  SOLVER ERRORS',s['solver_errors'])
"
