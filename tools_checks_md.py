#!/usr/bin/env python3
"""Generate CHECKS.md (property -> harness runs, parameters, bounds) from checks.json."""
import json
c = json.load(open('/verif/checks.json'))
out = ["# Registered checks (generated from checks.json by tools_checks_md.py)\n"]
for pid in sorted(c):
    s = c[pid]
    out.append("## %s\n" % pid)
    out.append("| GOOS / pkg | harnesses | quick | thorough |\n|---|---|---|---|")
    for r in s["runs"]:
        q = r.get("quick", {}); t = r.get("thorough", {})
        def fmt(x):
            return (" ".join("%s=%s" % kv for kv in sorted(x.get("params", {}).items())) + " " + " ".join(x.get("flags", []))).strip() or "-"
        out.append("| %s %s | %s | %s | %s |" % (r.get("goos", "linux"), r.get("pkg", ""), ", ".join(r["harnesses"]),
                   "(thorough only)" if r.get("thorough_only") else fmt(q), fmt(t)))
    out.append("\nBounds:")
    for k, v in s.get("bounds", {}).items():
        out.append("* **%s**: %s" % (k, v))
    out.append("\nOutside the bounds: " + "; ".join(s.get("outside_bounds", [])) + "\n")
open('/verif/CHECKS.md', 'w').write("\n".join(out) + "\n")
print("ok")
